"""C13 — projects: all-or-nothing, mirrored layout, order-independent, non-interfering.

Observed on the real `mamba` binary (write-set from `strace -f -e trace=%file`, cross-checked with content
snapshots of the whole project directory) and on `mamba_to_python` with permuted file lists."""
import ast, hashlib, itertools, json, os, re, shutil, subprocess, tempfile
from . import common, projects, pyrun
from .common import Partial, Report, Worker, rng, run_shards

PROP = 'C13'
SCRATCH = os.path.join(common.TARGET, 'c13')


def snapshot(root):
    out = {}
    for d, _, files in os.walk(root):
        for f in files:
            p = os.path.join(d, f)
            try:
                out[os.path.relpath(p, root)] = hashlib.sha1(open(p, 'rb').read()).hexdigest()
            except OSError:
                out[os.path.relpath(p, root)] = '?'
    return out


def write_project(root, files):
    for rel, src in files:
        p = os.path.join(root, rel)
        os.makedirs(os.path.dirname(p), exist_ok=True)
        with open(p, 'w', encoding='utf-8', newline='') as f:
            f.write(src)


WRITE_CALLS = re.compile(r'^(?:\[pid\s+\d+\]\s+)?(\d+\s+)?(openat|open|creat|rename|renameat|renameat2|unlink|unlinkat|mkdir|mkdirat|rmdir|link|linkat|symlink|symlinkat|truncate)\((.*)$')


def run_cli(cwd, args, annotate=False, trace=True):
    """Run the real binary. Returns (exit status, stderr text, set of paths written/created/removed)."""
    cmd = [common.CLI] + (['-a'] if annotate else []) + args
    tracefile = None
    if trace:
        fd, tracefile = tempfile.mkstemp(suffix='.strace', dir=SCRATCH)
        os.close(fd)
        cmd = ['strace', '-f', '-qq', '-e', 'trace=%file', '-o', tracefile] + cmd
    p = subprocess.run(cmd, cwd=cwd, stdout=subprocess.PIPE, stderr=subprocess.PIPE, text=True, timeout=120)
    touched = set()
    if trace:
        for line in open(tracefile, errors='replace'):
            m = WRITE_CALLS.match(line.strip())
            if not m:
                continue
            call, rest = m.group(2), m.group(3)
            if ' = -1 ' in line:
                continue
            paths = re.findall(r'"((?:[^"\\]|\\.)*)"', rest)
            if call in ('openat', 'open'):
                if not re.search(r'O_WRONLY|O_RDWR|O_CREAT|O_TRUNC|O_APPEND', rest):
                    continue
                paths = paths[:1]
            for q in paths:
                q = q if os.path.isabs(q) else os.path.normpath(os.path.join(cwd, q))
                touched.add((call, q))
        os.unlink(tracefile)
    return p.returncode, p.stderr, touched


def norm_py(src):
    try:
        return ast.dump(ast.parse(src))
    except SyntaxError:
        return 'SYNTAX:' + src


def eval_project(w, part, proj, r, origin, annotate):
    files = proj['files']
    n = len(files)
    tag = f'{n}files'
    # ---------------------------------------------------------------- (ii) permutations through mamba_to_python
    perms = list(itertools.permutations(range(n))) if n <= 4 else [tuple(r.sample(range(n), n)) for _ in range(24)]
    base = None
    for perm in perms:
        ordered = [('src/' + files[i][0], files[i][1]) for i in perm]
        res = w.pipe(ordered, annotate=annotate, srcdir='src')
        k = res.get('k')
        if k not in ('ok', 'err'):
            part.inconc('perm-' + str(k)); continue
        outs = {files[i][0]: norm_py(res['py'][pos]) for pos, i in enumerate(perm)} if k == 'ok' else None
        part.count('permutations')
        if base is None:
            base = (k, outs, perm)
            continue
        if k != base[0]:
            part.violation(f'order:verdict-depends-on-file-order:{tag}', {'kind': 'perm', 'files': files, 'annotate': annotate, 'order_a': base[2], 'verdict_a': base[0], 'order_b': perm,
                                                                       'verdict_b': k, 'diagnostic': (res.get('errs') or [''])[0][:400]})
            break
        if k == 'ok' and outs != base[1]:
            diff = [f for f in outs if outs[f] != base[1][f]]
            part.violation(f'order:output-depends-on-file-order:{tag}', {'kind': 'perm', 'files': files, 'annotate': annotate, 'order_a': base[2], 'order_b': perm, 'differs': diff})
            break
    else:
        if base:
            part.held(('perm', n, base[0]))
    if base is None or base[0] != 'ok':
        part.count('project-rejected')
        return
    # ---------------------------------------------------------------- (iii) adding an unrelated file
    plus = [('src/' + p_, s_) for p_, s_ in files] + [('src/zz_unrelated.mamba', projects.UNRELATED)]
    pos = r.randrange(len(plus))
    plus.insert(pos, plus.pop())
    res = w.pipe(plus, annotate=annotate, srcdir='src')
    if res.get('k') == 'ok':
        outs = {p_[4:]: norm_py(res['py'][i]) for i, (p_, _) in enumerate(plus) if p_ != 'src/zz_unrelated.mamba'}
        if outs != base[1]:
            part.violation(f'unrelated-file:changes-output:{tag}', {'kind': 'unrelated', 'files': files, 'annotate': annotate})
        else:
            part.held(('unrelated', n))
    elif res.get('k') == 'err':
        part.violation(f'unrelated-file:changes-verdict:{tag}', {'kind': 'unrelated', 'files': files, 'annotate': annotate, 'diagnostic': res['errs'][0][:400]})
    part.count('unrelated-file-tests')
    # ---------------------------------------------------------------- (i) the binary: write-set and mirrored layout
    root = tempfile.mkdtemp(prefix='p', dir=SCRATCH)
    try:
        write_project(os.path.join(root, 'src'), files)
        before = snapshot(root)
        layout = r.choice(['default', 'io', 'nested-out'])
        if layout == 'default':
            args, outdir = [], 'target'
        elif layout == 'io':
            args, outdir = ['-i', 'src', '-o', 'out'], 'out'
        else:
            args, outdir = ['-i', 'src', '-o', 'build/py'], 'build/py'
            os.makedirs(os.path.join(root, 'build'), exist_ok=True)
        rc, err, touched = run_cli(root, args, annotate)
        after = snapshot(root)
        want = {os.path.join(outdir, f[:-6] + '.py') for f, _ in files}
        new = {p_ for p_ in after if p_ not in before}
        changed = {p_ for p_ in before if after.get(p_) != before[p_]}
        part.count('cli-runs')
        wit = {'kind': 'cli', 'files': files, 'annotate': annotate, 'args': args, 'exit': rc, 'stderr': err[:500], 'new_files': sorted(new), 'wanted': sorted(want)}
        if rc != 0:
            part.violation(f'cli:accepted-by-library-rejected-by-binary:{tag}', wit)
            return
        if new != want:
            part.violation(f"cli:layout:{'missing' if want - new else 'extra'}:{layout}", wit)
            return
        if changed:
            part.violation('cli:source-modified', dict(wit, changed=sorted(changed)))
            return
        outside = sorted(q for c, q in touched if not (q.startswith(os.path.join(root, outdir) + os.sep) or q == os.path.join(root, outdir)
                                                        or (layout == 'nested-out' and q == os.path.join(root, 'build'))) and not q.startswith('/dev/') and not q.startswith('/proc/'))
        if outside:
            part.violation('cli:writes-outside-output-directory', dict(wit, outside=outside[:10]))
            return
        removed = [q for c, q in touched if c.startswith(('unlink', 'rmdir', 'rename'))]
        if removed:
            part.violation('cli:removes-or-renames-files', dict(wit, removed=removed[:10]))
            return
        # content equals what the library returned (as Python ASTs)
        for f, _ in files:
            got = norm_py(open(os.path.join(root, outdir, f[:-6] + '.py'), encoding='utf-8').read())
            if got != base[1][f]:
                part.violation('cli:written-content-differs-from-library-output', dict(wit, file=f))
                return
        part.held(('cli', layout, n))
        # ------------------------------------------------------------ (v) second run into the populated directory
        first = snapshot(os.path.join(root, outdir))
        rc2, err2, touched2 = run_cli(root, args, annotate)
        second = snapshot(os.path.join(root, outdir))
        part.count('second-runs')
        if rc2 != 0 or second != first:
            part.violation('rerun:same-project-different-result', dict(wit, exit2=rc2))
            return
        part.held(('rerun-same', n))
        # a changed project (one file shortened): the result must equal a fresh transpilation of the new version
        j = r.randrange(n)
        shorter = files[j][1].split('\n')
        shorter = '\n'.join(l for l in shorter if not l.startswith(('print(', 'def o_', 'def take_'))) + '\n'
        if shorter != files[j][1]:
            v2 = [(f, (shorter if i == j else s_)) for i, (f, s_) in enumerate(files)]
            lib = w.pipe([('src/' + f, s_) for f, s_ in v2], annotate=annotate, srcdir='src')
            write_project(os.path.join(root, 'src'), v2)
            rc3, err3, _ = run_cli(root, args, annotate, trace=False)
            part.count('changed-project-reruns')
            if lib.get('k') == 'ok' and rc3 == 0:
                fresh = {f[:-6] + '.py': hashlib.sha1(lib['py'][i].replace('\r\n', '\n').encode()).hexdigest() for i, (f, _) in enumerate(v2)}
                got = snapshot(os.path.join(root, outdir))
                if got != fresh:
                    bad = sorted(f for f in fresh if got.get(f) != fresh[f])
                    part.violation('rerun:stale-content-after-project-changed', dict(wit, differs=bad, v2_file=files[j][0]))
                    return
                part.held(('rerun-changed', n))
            elif (lib.get('k') == 'ok') != (rc3 == 0):
                part.inconc('rerun-verdict-mismatch')
        # the same sources with the OTHER annotate flag, and a changed source that carries an OLD modification time (restored
        # from a backup, checked out): the populated directory must still end up equal to a fresh transpilation
        cur = [(f, open(os.path.join(root, 'src', f), encoding='utf-8').read()) for f, _ in files]
        for step in ('flag-changed', 'changed-with-old-mtime'):
            flag = annotate
            if step == 'flag-changed':
                flag = not annotate
            else:
                j = r.randrange(n)
                cur = [(f, (s_ + 'print("late")\n' if i == j else s_)) for i, (f, s_) in enumerate(cur)]
                write_project(os.path.join(root, 'src'), cur)
                os.utime(os.path.join(root, 'src', cur[j][0]), (978307200, 978307200))
            lib = w.pipe([('src/' + f, s_) for f, s_ in cur], annotate=flag, srcdir='src')
            rc4, err4, _ = run_cli(root, args, flag, trace=False)
            part.count('rerun-' + step)
            if lib.get('k') == 'ok' and rc4 == 0:
                fresh = {f[:-6] + '.py': hashlib.sha1(lib['py'][i].replace('\r\n', '\n').encode()).hexdigest() for i, (f, _) in enumerate(cur)}
                got = snapshot(os.path.join(root, outdir))
                if got != fresh:
                    bad = sorted(f for f in fresh if got.get(f) != fresh[f])
                    part.violation(f'rerun:stale-content-after-{step}', dict(wit, differs=bad, step=step, annotate_of_rerun=flag))
                    return
                part.held(('rerun-' + step, n))
            elif (lib.get('k') == 'ok') != (rc4 == 0):
                part.inconc('rerun-verdict-mismatch')
        # ------------------------------------------------------------ (iv) fault enumeration: all-or-nothing
        populated = snapshot(os.path.join(root, outdir))
        for j2 in range(n):
            for kind, inj in projects.FAULTS.items():
                if r.random() > (1.0 if n <= 3 else 0.5):
                    continue
                faulty = [(f, (inj(s_, r) if i == j2 else s_)) for i, (f, s_) in enumerate(files)]
                # the fault must really be one (the library rejects the faulty file alone as well)
                # the injection must really be a fault of the intended kind (e.g. not have landed inside a string literal):
                # the faulty file alone must be rejected by the lexer/parser (cross-file references do not matter at that stage)
                if kind != 'type':
                    solo = w.stages([('src/' + faulty[j2][0], faulty[j2][1])], annotate=annotate)
                    if solo.get('k') != 'err' or not solo.get('errs') or solo['errs'][0].get('stage') != 'parse':
                        part.count('fault-not-a-fault'); continue
                write_project(os.path.join(root, 'src'), faulty)
                # once into the populated directory, once into a fresh one
                for fresh_out in (False, True):
                    a2 = ['-i', 'src', '-o', 'fresh_out'] if fresh_out else args
                    od = 'fresh_out' if fresh_out else outdir
                    shutil.rmtree(os.path.join(root, 'fresh_out'), ignore_errors=True)
                    rcf, errf, _ = run_cli(root, a2, annotate, trace=False)
                    part.count('fault-runs')
                    wf = {'kind': 'fault', 'files': faulty, 'annotate': annotate, 'fault': kind, 'faulty_file': files[j2][0], 'args': a2, 'exit': rcf, 'stderr': errf[:600]}
                    now = snapshot(os.path.join(root, od)) if os.path.isdir(os.path.join(root, od)) else {}
                    if rcf == 0:
                        part.violation(f'fault:accepted:{kind}', wf); break
                    if fresh_out and now:
                        part.violation(f'fault:python-written-despite-error:{kind}', dict(wf, written=sorted(now))); break
                    if not fresh_out and now != populated:
                        part.violation(f'fault:previous-output-modified:{kind}', wf); break
                    named = re.findall(r'──→ ([^\s:]+)', errf)
                    if not named:
                        part.violation(f'fault:no-file-named:{kind}', wf); break
                    wrong = [x for x in named if not x.endswith(files[j2][0])]
                    if wrong:
                        part.violation(f'fault:wrong-file-named:{kind}', dict(wf, named=named[:5])); break
                    part.held(('fault', kind, fresh_out, n))
                write_project(os.path.join(root, 'src'), files)
    finally:
        shutil.rmtree(root, ignore_errors=True)


def shard(i, n, count):
    os.makedirs(SCRATCH, exist_ok=True)
    w = Worker(watchdog=120); part = Partial()
    for j in range(i, count, n):
        r = rng(PROP, 'project', j)
        proj = projects.generate(r, all_root=(j % 5 == 0))
        # unusual but legal file names: a name starting with a dot, an upper-case name, a name with a dash (nobody imports them)
        if j % 3 == 1 and len(proj['files']) <= 4:
            odd = [('cfg/.defaults.mamba', 'dfl'), ('.top.mamba', 'tpd'), ('pkg/Upper_Case.mamba', 'upc'), ('pkg/with-dash.mamba', 'wdh'), ('deep/.h/inner.mamba', 'hdi')][(j // 3) % 5]
            proj = dict(proj, files=proj['files'] + [(odd[0], f'def {odd[1]}_zq: Int := {j % 9}\nprint({odd[1]}_zq)\n')])
            part.count('projects-with-odd-file-name')
        eval_project(w, part, proj, r, f'project:{j}', annotate=(j % 2 == 0))
        part.count('projects')
        if j % 7 == 0:
            part.sample({'files': [f for f, _ in proj['files']], 'first_file': proj['files'][0][1][:300]})
    w.close()
    return part.dump()


def single_file_cli(rep):
    """`-i file.mamba`: single file input."""
    root = tempfile.mkdtemp(prefix='s', dir=SCRATCH)
    try:
        write_project(root, [('one.mamba', 'def x := 1\nprint(x)\n')])
        rc, err, touched = run_cli(root, ['-i', 'one.mamba', '-o', 'out'])
        files = snapshot(root)
        if rc != 0 or 'out/one.py' not in files:
            rep.violation('cli:single-file-input', {'kind': 'single', 'exit': rc, 'stderr': err[:300], 'files': sorted(files)})
        else:
            rep.held(('single-file',))
    finally:
        shutil.rmtree(root, ignore_errors=True)


def selftest():
    """Canary: the strace observer must see a write outside the expected set."""
    os.makedirs(SCRATCH, exist_ok=True)
    root = tempfile.mkdtemp(prefix='c', dir=SCRATCH)
    try:
        fd, tf = tempfile.mkstemp(suffix='.strace', dir=SCRATCH); os.close(fd)
        subprocess.run(['strace', '-f', '-qq', '-e', 'trace=%file', '-o', tf, 'sh', '-c', f'echo x > {root}/extra.txt; rm {root}/extra.txt'], check=True)
        txt = open(tf).read(); os.unlink(tf)
        if 'extra.txt' not in txt or 'unlink' not in txt:
            raise common.Inconclusive('canary: strace does not report file creation/removal')
    finally:
        shutil.rmtree(root, ignore_errors=True)


def replay_entries(rep):
    rep.known_live = {}
    w = Worker(watchdog=120)
    entries = [(sig, wit) for sig, (wit, _) in rep.known.known.items()] + [(None, x[2]) for x in rep.known.fixed if x[2]]
    for sig, wit in entries:
        obj = json.load(open(os.path.join(common.ROOT, wit)))
        part = Partial()
        eval_project(w, part, {'files': [tuple(f) for f in obj['files']]}, rng(PROP, 'replay', wit), 'finding:' + wit, obj.get('annotate', False))
        if sig is not None:
            rep.known_live[sig] = sig in part.violations
        else:
            rep.count('fixed-regressions-replayed')
        for s, (wt, c) in part.violations.items():
            rep.violation(s, wt)
    w.close()


def main(tier):
    common.build(cli=True)
    selftest()
    rep = Report(PROP, tier, 'fault_enumeration')
    rep.rule = ('one evaluation = one observation on one generated project (1-5 files, nested directories, cross-file classes / functions / exceptions, both dependency '
                'directions and cycles): a permutation of the file list through mamba_to_python, the project plus an unrelated file, a run of the real binary under strace '
                '(write-set, layout, content), a second run into the populated directory, a run after the project changed, and one run per (file, fault kind) with the fault '
                'injected into exactly that file; distinct = distinct (observation kind, project size, verdict / layout / fault kind); non-trivial = the project was accepted '
                'before the observation')
    rep.assumptions = ['strace -f -e trace=%file sees every file-system effect of the binary', 'injected faults are file-local: an illegal character, a stray token, a wrongly typed local',
                       'imports are only generated for flat module names (dotted module paths do not parse on this tree)']
    replay_entries(rep)
    single_file_cli(rep)
    count = 48 if tier == 'quick' else 600
    for d in run_shards(shard, (count,)):
        rep.merge(d)
    floors = [('>= 200 permutations', rep.cov.get('permutations', 0) >= 200), ('>= 20 binary runs under strace', rep.cov.get('cli-runs', 0) >= 20),
              ('>= 20 second runs', rep.cov.get('second-runs', 0) >= 20), ('>= 100 fault runs', rep.cov.get('fault-runs', 0) >= 100),
              ('>= 20 unrelated-file tests', rep.cov.get('unrelated-file-tests', 0) >= 20), ('>= 10 changed-project reruns', rep.cov.get('changed-project-reruns', 0) >= 10)]
    shutil.rmtree(SCRATCH, ignore_errors=True)
    return rep.finish(floors)


def replay(path):
    common.build(cli=True)
    os.makedirs(SCRATCH, exist_ok=True)
    obj = json.load(open(path))['witness']
    w = Worker(watchdog=120); part = Partial()
    eval_project(w, part, {'files': [tuple(f) for f in obj['files']]}, rng(PROP, 'replay', 0), 'replay', obj.get('annotate', False))
    w.close()
    if part.violations:
        print(f'VIOLATION property={PROP} replay={path}')
        return 1
    print('replay: held')
    return 0
