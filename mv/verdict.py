"""Engine shared by the static-property monitors C05-C09: run verdict-sweep cells through the real pipeline
and compare accept/reject with what the reference typing discipline demands.

A cell is (cell id, group id, source, must_accept, meta). A mismatch is a violation whose signature is the
*group* (rule : category : context) and direction - narrow enough that a defect in another construct,
category or context cannot hide behind a listed finding, coarse enough that one defect is one entry.
Accepted-but-must-reject cells are additionally executed: the run-time harm (TypeError, AttributeError on
None, ...) is attached to the witness."""
import json, os
from . import common, behave, pyrun
from .common import Partial, Report, Worker, run_shards

GO_WRONG = ('TypeError', 'AttributeError', 'NameError', 'UnboundLocalError')


def judge(w, cell, part, execute=True):
    cid, gid, src, must, meta = cell
    r = w.pipe(src, annotate=True)
    k = r.get('k')
    if k not in ('ok', 'err'):
        part.inconc('pipeline-' + str(k))        # crashes belong to C03
        return None
    acc = k == 'ok'
    part.count('accepted' if acc else 'rejected')
    part.count(f"ctx:{meta.get('ctx', '?')}:{'accept' if acc else 'reject'}")
    part.count('must-accept' if must else 'must-reject')
    if acc == must:
        part.held((gid, 'accept' if must else 'reject'))
        if part.evaluations % 211 == 1:
            part.sample({'cell': cid, 'must': 'accept' if must else 'reject', 'pipeline': k, 'source_tail': src[-260:],
                         'diagnostic': (r.get('errs') or [''])[0].split('\n')[0][:120]})
        return acc
    # confirm once more in the same worker (verdict instability would be C12's business)
    r2 = w.pipe(src, annotate=True)
    if r2.get('k') != k:
        part.inconc('nondeterministic-verdict')
        return None
    wit = {'kind': 'cell', 'cell': cid, 'group': gid, 'must': 'accept' if must else 'reject', 'pipeline': k, 'source': src, 'meta': meta}
    if must:
        wit['diagnostic'] = r['errs'][0][:600]
        sig = f'over-reject:{gid}'
    else:
        sig = f'under-reject:{gid}'
        if execute:
            o = pyrun.run(r['py'][0])
            wit['run'] = {'exception': o['exc'], 'detail': o['detail'], 'lines': o['lines'][:6]}
            if o['exc'] in GO_WRONG:
                part.count('harm:' + o['exc'])
    part.violation(sig, wit)
    return acc


def _shard(i, n, cells):
    w = Worker(watchdog=60); part = Partial()
    for k, cell in enumerate(cells):
        if k % n != i:
            continue
        judge(w, cell, part)
        part.count('cells')
    w.close()
    return part.dump()


def run(prop, tier, cells, level, rule, assumptions, extra_floors=(), design_note=None):
    common.build()
    rep = Report(prop, tier, level)
    rep.rule = rule
    rep.assumptions = assumptions
    # known / fixed entries: cells are deterministic, so an entry is live iff its signature occurs in this run
    dumps = run_shards(_shard, (cells,))
    raw = {}
    for d in dumps:
        for sig, wit, n in d['violations']:
            if sig in raw:
                raw[sig][1] += n
            else:
                raw[sig] = [wit, n]
        d['violations'] = []
        rep.merge(d)
    # a mismatch that occurs in EVERY context of its (rule, category) group is one context-independent defect:
    # collapse `dir:rule:cat:<ctx>` into `dir:rule:cat:*`; anything narrower keeps its context
    ctx_of_group = {}
    for c in cells:
        head, _, ctx = c[1].rpartition(':')
        ctx_of_group.setdefault(head, set()).add(ctx)
    seen = {}
    for sig in raw:
        d_, _, gid = sig.partition(':')
        head, _, ctx = gid.rpartition(':')
        seen.setdefault((d_, head), set()).add(ctx)
    for sig, (wit, n) in sorted(raw.items()):
        d_, _, gid = sig.partition(':')
        head, _, ctx = gid.rpartition(':')
        if len(ctx_of_group.get(head, ())) > 1 and seen[(d_, head)] == ctx_of_group[head]:
            sig = f'{d_}:{head}:*'
        for _ in range(n):
            rep.violation(sig, wit)
        rep.evaluations -= n        # already counted by the shard
    rep.known_live = {sig: (sig in rep.known_hits) for sig in rep.known.known}
    ctxs = sorted({c[4].get('ctx', '?') for c in cells})
    floors = [(f'all {len(cells)} cells evaluated', rep.cov.get('cells', 0) == len(cells)),
              ('cells demanding accept and cells demanding reject both present', rep.cov.get('must-accept', 0) > 0 and rep.cov.get('must-reject', 0) > 0)]
    demanded = [c for c in ctxs if {True, False} <= {x[3] for x in cells if x[4].get('ctx', '?') == c}]
    both = [c for c in demanded if rep.cov.get(f'ctx:{c}:accept', 0) > 0 and rep.cov.get(f'ctx:{c}:reject', 0) > 0]
    floors.append((f'accept and reject both observed in >= 90% of the {len(demanded)} contexts whose cells demand both', len(both) >= 0.9 * len(demanded)))
    floors += list(extra_floors)
    groups = {c[1] for c in cells}
    return rep.finish(floors, extra_cov={'cells': len(cells), 'groups': len(groups), 'contexts': ctxs}, exhaustive=True)


def replay(prop, path, cells_fn):
    common.build()
    obj = json.load(open(path))
    wit = obj['witness']
    cell = next((c for c in cells_fn() if c[0] == wit['cell']), None)
    if cell is None:
        cell = (wit['cell'], wit['group'], wit['source'], wit['must'] == 'accept', wit.get('meta', {}))
    w = Worker(watchdog=60); part = Partial()
    judge(w, cell, part)
    w.close()
    if part.violations:
        print(f'VIOLATION property={prop} replay={path}')
        return 1
    print('replay: held')
    return 0
