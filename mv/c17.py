"""C17 — interoperability: the output's Python API mirrors the Mamba definitions.

The emitted module is executed and introspected (inspect.signature on every function, class and method:
names, order, defaults, variadic markers; __bases__ order) and compared with the table that the definitions
of the Mamba source imply; then a generated Python client calls every function and constructor positionally
and by keyword (TypeError about arguments = violation)."""
import json, os
from . import common, lang, gen, sweeps, pyrun
from .common import Partial, Report, Worker, rng, run_shards

PROP = 'C17'
DUNDER = {'+': '__add__', '-': '__sub__', '*': '__mul__', '/': '__truediv__', '//': '__floordiv__', '^': '__pow__', 'mod': '__mod__', '=': '__eq__', '!=': '__ne__',
          '<': '__lt__', '<=': '__le__', '>': '__gt__', '>=': '__ge__'}
VAL = {'Int': '1', 'Str': '"s"', 'Float': '1.5', 'Bool': 'True', '(Int, Int)': '(0, 1)', 'List[Int]': '[1, 2]', 'List[(Int, Int)]': '[(1, 2), (3, 4)]', '(Int, Str)': '(2, "t")',
       'Int?': 'None', '((Int, Int), Int)': '((5, 6), 7)'}
# what Python must report as the default (repr) for each default written in the source
PYREPR = {'1': '1', '"s"': "'s'", '1.5': '1.5', 'True': 'True', '(0, 1)': '(0, 1)', '[1, 2]': '[1, 2]', '[(1, 2), (3, 4)]': '[(1, 2), (3, 4)]', '(2, "t")': "(2, 't')", 'None': 'None',
          '((5, 6), 7)': '((5, 6), 7)', '"d"': "'d'"}
PTYPES = ['Int', 'Str', 'Float', 'Bool', 'Int', 'Str', '(Int, Int)', 'List[Int]', 'List[(Int, Int)]', '(Int, Str)', 'Int?', '((Int, Int), Int)']


def shape_program(r):
    """(mamba source, expected api table) for a random family of class and function shapes."""
    L = []
    exp = {'functions': {}, 'classes': {}}
    # possible parents
    L += ['class Named(def label: Str)', '    def name_of(self) -> Str => self.label', '']
    exp['classes']['Named'] = {'bases': ['object'], 'ctor': [('label', False, '')], 'methods': {'name_of': [('self', False, '')]}}
    L += ['class Tagged(def tag: Int, def weight: Int)', '    def tag_of(self) -> Int => self.tag', '']
    exp['classes']['Tagged'] = {'bases': ['object'], 'ctor': [('tag', False, ''), ('weight', False, '')], 'methods': {'tag_of': [('self', False, '')]}}
    L += ['type Shape', '    def area(self) -> Int', '']
    exp['classes']['Shape'] = {'bases': ['ABC'], 'ctor': None, 'methods': {'area': [('self', False, '')]}}
    L += ['class Plain', '    def pv: Int := 1', '']
    exp['classes']['Plain'] = {'bases': ['object'], 'ctor': [], 'methods': {}}
    ncls = r.randrange(2, 5)
    for ci in range(ncls):
        cname = f'K{ci}'
        parents = r.sample(['Named', 'Tagged', 'Shape', 'Plain'], r.choice([0, 0, 1, 1, 1, 2, 3]))
        explicit = r.random() < 0.2 and not any(p in ('Named', 'Tagged') for p in parents)
        args = []
        if not explicit:
            for ai in range(r.choice([0, 0, 1, 2, 3, 4])):
                args.append({'n': f'a{ci}{ai}', 't': r.choice(['Int', 'Str', 'Int', 'Float', 'Bool']), 'def': r.random() < 0.6})
        # parent argument lists: class args of the right type by name, or literals; order / position of forwarded args random
        pstrs = []
        ok = True
        for p in parents:
            if p == 'Named':
                cands = [a['n'] for a in args if a['t'] == 'Str']
                pstrs.append(f"Named({r.choice(cands)})" if cands and r.random() < 0.7 else 'Named("lit")')
            elif p == 'Tagged':
                cands = [a['n'] for a in args if a['t'] == 'Int']
                a1 = r.choice(cands) if cands and r.random() < 0.7 else None
                a2 = r.choice(cands) if cands and r.random() < 0.5 else None
                if a1 is None or a2 is None:
                    # parent arguments may only be identifiers or strings on this tree: an Int literal is not allowed
                    if len(cands) >= 1:
                        a1 = a1 or cands[0]; a2 = a2 or cands[-1]
                    else:
                        ok = False
                pstrs.append(f'Tagged({a1}, {a2})')
            else:
                pstrs.append(p)
        if not ok:
            parents = [p for p in parents if p != 'Tagged']
            pstrs = [s for s in pstrs if not s.startswith('Tagged')]
        head = f'class {cname}'
        if args:
            head += '(' + ', '.join(('def ' if a['def'] else '') + f"{a['n']}: {a['t']}" for a in args) + ')'
        if pstrs:
            head += ': ' + ', '.join(pstrs)
        body = []
        methods = {}
        members = []
        for mi in range(r.choice([0, 1, 2, 3, 4])):
            k = r.randrange(5)
            if k == 0:
                members.append(('field', f'    def f{ci}{mi}: Int := {mi}'))
            elif k == 1:
                members.append(('field', f'    def fin c{ci}{mi}: Str := "c"'))
            elif k in (2, 3):
                ps = []
                dfl = False
                for pi in range(r.choice([0, 1, 2, 3])):
                    t = r.choice(PTYPES)
                    if dfl or r.random() < 0.3:
                        dfl = True
                        ps.append((f'p{pi}', t, VAL[t]))
                    else:
                        ps.append((f'p{pi}', t, None))
                mname = f'm{ci}{mi}'
                selfk = r.choice(['self', 'self', 'fin self'])
                members.append(('method', f"    def {mname}({', '.join([selfk] + [f'{n}: {t}' + (f' := {d}' if d else '') for n, t, d in ps])}) -> Int => {mi}"))
                methods[mname] = [('self', False, '')] + [(n, d is not None, '', PYREPR[d] if d else None) for n, t, d in ps]
            else:
                op = r.choice(list(DUNDER))
                if DUNDER[op] in methods:
                    continue
                ret = 'Bool' if op in ('=', '!=', '<', '<=', '>', '>=') else 'Int'
                members.append(('method', f"    def {op}(self, other: Int) -> {ret} => {'True' if ret == 'Bool' else '1'}"))
                methods[DUNDER[op]] = [('self', False, ''), ('other', False, '')]
        # methods defined under their dunder NAME (the only way to define >=, <=, len, ...): the name must come out unchanged
        for dn in r.sample(['__ge__', '__le__', '__gt__', '__lt__', '__ne__', '__len__', '__contains__', '__neg__', '__floordiv__', '__truediv__', '__radd__', '__call__'], r.choice([0, 0, 1, 2])):
            if dn in methods:
                continue
            if dn in ('__len__', '__neg__'):
                members.append(('method', f'    def {dn}(self) -> Int => 1')); methods[dn] = [('self', False, '')]
            else:
                ret = 'Bool' if dn in ('__ge__', '__le__', '__gt__', '__lt__', '__ne__', '__contains__') else 'Int'
                members.append(('method', f"    def {dn}(self, other: Int) -> {ret} => {'True' if ret == 'Bool' else '1'}")); methods[dn] = [('self', False, ''), ('other', False, '')]
        if 'Shape' in parents:
            members.append(('method', '    def area(self) -> Int => 4'))
            methods['area'] = [('self', False, '')]
        ctor = [(a['n'], False, '') for a in args]
        if explicit:
            flds = [(f'x{ci}', 'Int'), (f'y{ci}', 'Str')]
            for fn, ft in flds:
                members.insert(0, ('field', f'    def {fn}: {ft}'))
            dflt = r.random() < 0.5
            dtxt = ' := "d"' if dflt else ''
            members.append(('method', f"    def __init__(self, {flds[0][0]}: Int, {flds[1][0]}: Str{dtxt}) =>\n        self.{flds[0][0]} := {flds[0][0]}\n        self.{flds[1][0]} := {flds[1][0]}"))
            ctor = [(flds[0][0], False, ''), (flds[1][0], dflt, '', "'d'" if dflt else None)]
            methods['__init__'] = [('self', False, '')] + ctor
        r.shuffle(members)
        # typed-but-valueless fields must come before use; keep declared order for explicit fields first
        members.sort(key=lambda m: 0 if (m[0] == 'field' and ':=' not in m[1]) else 1)
        L.append(head)
        L += [m[1] for m in members]
        L.append('')
        exp['classes'][cname] = {'bases': parents or ['object'], 'ctor': ctor, 'methods': methods}
    for fi in range(r.randrange(1, 4)):
        ps = []
        dfl = False
        for pi in range(r.choice([0, 1, 2, 3, 4])):
            t = r.choice(PTYPES)
            if dfl or r.random() < 0.3:
                dfl = True
                ps.append((f'q{pi}', t, VAL[t]))
            else:
                ps.append((f'q{pi}', t, None))
        fname = f'fun{fi}'
        L.append(f"def {fname}({', '.join(f'{n}: {t}' + (f' := {d}' if d else '') for n, t, d in ps)}) -> Int => {fi}")
        exp['functions'][fname] = [(n, d is not None, '', PYREPR[d] if d else None) for n, t, d in ps]
        exp.setdefault('ptypes', {})[fname] = [t for n, t, d in ps]
    if r.random() < 0.3:
        L.append('def varf(first: Int, vararg rest: Int) -> Int => first')
        exp['functions']['varf'] = [('first', False, ''), ('rest', False, '*')]
    L.append('print("loaded")')
    return '\n'.join(L) + '\n', exp


def expected_from_prog(prog):
    exp = {'functions': {}, 'classes': {}, 'ptypes': {}}
    for f in prog.get('funs', []):
        exp['functions'][f['name']] = [(p['n'], p.get('d') is not None, '') for p in f['params']]
        exp['ptypes'][f['name']] = [p['t'] for p in f['params']]
    for c in prog.get('classes', []):
        ms = {}
        init = None
        for m in c.get('members', []):
            if m['k'] == 'method':
                nm = DUNDER.get(m['name'], m['name']) if m.get('op') else m['name']
                ms[nm] = [('self', False, '')] + [(p['n'], p.get('d') is not None, '') for p in m['params']]
                if m['name'] == '__init__':
                    init = m
        ctor = [(p['n'], p.get('d') is not None, '') for p in init['params']] if init else [(a['n'], False, '') for a in c.get('args', [])]
        exp['classes'][c['name']] = {'bases': [p['name'] for p in c.get('parents', [])] or ['object'], 'ctor': ctor, 'methods': ms}
    return exp


def compare(exp, rep, part, wit, calls_out):
    """Differences between the expected table and what Python reports; each is one violation."""
    bad = []

    def sig3(s):
        return [tuple(x[:3]) for x in s] if s is not None else None

    def same(got, want):
        """names, default markers, variadic markers; and the default VALUE where the expected table states one"""
        if sig3(got) != [tuple(x[:3]) for x in want]:
            return False
        return all(len(w_) < 4 or w_[3] is None or g_[3] == w_[3] for g_, w_ in zip(got, want))
    for fn, es in exp['functions'].items():
        got = rep['functions'].get(fn)
        if got is None:
            bad.append(('function-missing', fn)); continue
        if not same(got, es):
            bad.append(('function-signature' if sig3(got) != [tuple(x[:3]) for x in es] else 'function-default-value', fn, got, es))
    for cn, ec in exp['classes'].items():
        gc = rep['classes'].get(cn)
        if gc is None:
            bad.append(('class-missing', cn)); continue
        if gc['bases'] != ec['bases']:
            bad.append(('bases', cn, gc['bases'], ec['bases']))
        if ec['ctor'] is not None and not gc['abstract']:
            if gc['ctor'] is None or not same(gc['ctor'], ec['ctor']):
                bad.append(('constructor-signature', cn, sig3(gc['ctor']), ec['ctor']))
        for mn, ms in ec['methods'].items():
            gm = gc['methods'].get(mn)
            if gm is None:
                bad.append(('method-missing', f'{cn}.{mn}')); continue
            if not same(gm, ms):
                bad.append(('method-signature' if sig3(gm) != [tuple(x[:3]) for x in ms] else 'method-default-value', f'{cn}.{mn}', gm, ms))
    for expr, outcome in calls_out:
        if outcome.startswith('TypeError') and any(s in outcome for s in ('argument', 'positional', 'keyword', 'takes')):
            bad.append(('client-call', expr, outcome))
    for b in bad:
        part.violation(f'{b[0]}:{shape_of(b, exp)}', dict(wit, difference=[str(x) for x in b]))
    return not bad


def shape_of(b, exp):
    """Signature detail that keeps findings narrow without naming generated identifiers."""
    kind = b[0]
    if kind in ('constructor-signature',):
        ec = exp['classes'][b[1]]
        return f"parents={len([p for p in ec['bases'] if p != 'object'])}:args={len(ec['ctor'])}:got={len(b[2]) if b[2] is not None else 'none'}"
    if kind in ('bases',):
        return f'want={len(b[3])}:got={len(b[2])}'
    if kind in ('method-signature', 'function-signature', 'method-default-value', 'function-default-value'):
        return f'want={len(b[3])}:got={len(b[2])}'
    if kind == 'client-call':
        return 'ctor' if b[1][:1].isupper() else 'function'
    return 'x'


def client_calls(exp):
    calls = []
    for fn, sig in exp['functions'].items():
        tys = exp.get('ptypes', {}).get(fn)
        if tys is None or any(s[2] for s in sig) or any(t not in VAL for t in tys):
            continue
        req = [i for i, s in enumerate(sig) if not s[1]]
        calls.append(f"{fn}({', '.join(VAL[tys[i]] for i in req)})")
        calls.append(f"{fn}({', '.join(VAL[t] for t in tys)})")
        calls.append(f"{fn}({', '.join(f'{s[0]}={VAL[t]}' for s, t in zip(sig, tys))})")
        if len(sig) >= 2:
            calls.append(f"{fn}({', '.join(f'{s[0]}={VAL[t]}' for s, t in reversed(list(zip(sig, tys))))})")
    return calls


def judge(w, src, exp, part, origin, flags=(True, False)):
    for ann in flags:
        res = w.pipe(src, annotate=ann)
        k = res.get('k')
        if k == 'err':
            part.count('rejected'); part.evaluations += 1
            part.cov.setdefault('rejected-msgs', {})
            m = res['errs'][0].split('\n')[0][:80]
            part.cov['rejected-msgs'][m] = part.cov['rejected-msgs'].get(m, 0) + 1
            return
        if k != 'ok':
            part.inconc('pipeline-' + str(k)); return
        py = res['py'][0]
        calls = client_calls(exp)
        out = pyrun.introspect(py, calls)
        if out.get('report') is None:
            part.inconc('introspection-failed'); continue
        if out.get('exc') and not any(s in out['exc'] for s in ()):
            # import-time failures are C01/C04/C16's business unless they prevent introspection
            part.count('import-time-exception')
        wit = {'kind': 'api', 'origin': origin, 'annotate': ann, 'mamba': src, 'python': py[:4000]}
        part.count('modules')
        part.count('classes', len(exp['classes'])); part.count('functions', len(exp['functions'])); part.count('client-calls', len(calls))
        if compare(exp, out['report'], part, wit, out['calls']):
            part.held((origin.split(':')[0], ann, len(exp['classes']), len(exp['functions'])))
            if part.evaluations % 50 == 1:
                part.sample({'origin': origin, 'annotate': ann, 'classes': {c: {'bases': v['bases'], 'ctor': v['ctor']} for c, v in list(out['report']['classes'].items())[:3]},
                             'functions': dict(list(out['report']['functions'].items())[:3]), 'client_calls': out['calls'][:4]})


def shard(i, n, nshape, ngen):
    w = Worker(watchdog=60); part = Partial()
    k = 0
    for j in range(nshape):
        k += 1
        if k % n != i:
            continue
        r = rng(PROP, 'shape', j)
        src, exp = shape_program(r)
        # each program is judged three times: a member lost through a hash-order dependent collision shows up
        for _ in range(2 if j % 4 else 3):
            judge(w, src, exp, part, f'shape:{j}', flags=(True,) if _ else (True, False))
        part.count('shape-programs')
    for j in range(ngen):
        k += 1
        if k % n != i:
            continue
        r = rng(PROP, 'gen', j)
        prog, _ = gen.generate(r)
        judge(w, lang.to_mamba(prog), expected_from_prog(prog), part, f'generated:{j}')
        part.count('generated-programs')
    for kk, (cell, prog) in enumerate(sweeps.cells()):
        k += 1
        if k % n == i and (prog.get('classes') or prog.get('funs')) and kk % 5 == 0:
            judge(w, lang.to_mamba(prog), expected_from_prog(prog), part, 'sweep:' + cell, flags=(bool(kk % 2),))
    w.close()
    return part.dump()


def replay_entries(rep):
    rep.known_live = {}
    w = Worker(watchdog=60)
    entries = [(sig, wit) for sig, (wit, _) in rep.known.known.items()] + [(None, x[2]) for x in rep.known.fixed if x[2]]
    for sig, wit in entries:
        obj = json.load(open(os.path.join(common.ROOT, wit)))
        part = Partial()
        judge(w, obj['mamba'], obj['expected'], part, 'finding:' + wit)
        if sig is not None:
            rep.known_live[sig] = sig in part.violations
        for s, (wt, c) in part.violations.items():
            rep.violation(s, wt)
    w.close()


def selftest():
    out = pyrun.introspect('class A:\n    def __init__(self, y, x):\n        pass\ndef f(a, b=1):\n    return a\n', ['f(b=2)'])
    part = Partial()
    exp = {'functions': {'f': [('a', False, ''), ('b', True, '')]}, 'classes': {'A': {'bases': ['object'], 'ctor': [('x', False, ''), ('y', False, '')], 'methods': {}}}}
    assert not compare(exp, out['report'], part, {}, out['calls'])
    assert any(s.startswith('constructor-signature') for s in part.violations) and any(s.startswith('client-call') for s in part.violations), list(part.violations)


def main(tier):
    common.build()
    selftest()
    rep = Report(PROP, tier, 'exploration')
    rep.rule = ('one evaluation = one emitted module executed and introspected with inspect.signature (functions, classes, constructors as Python sees them incl. inherited ones, '
                'methods, operator dunders, __bases__ order) and compared with the table the Mamba definitions imply; then every function is called positionally, with defaults '
                'omitted, by keyword and by keyword in reverse order; workload: random class/function shape family (0-4 class arguments with/without def, 0-3 parents with '
                'identifier/string arguments in any position, abstract parent, explicit constructor, interleaved fields/methods/operators, defaults, vararg), generated programs, sweep '
                'cells; shape programs are judged 2-3 times (hash-order dependent member loss); distinct = distinct (origin kind, flag, #classes, #functions)')
    rep.assumptions = ['a class without class arguments and without parent arguments needs no __init__ of its own: what is compared is the constructor signature Python reports',
                       'parent arguments are identifiers or string literals only (grammar of this tree)']
    replay_entries(rep)
    nshape, ngen = (260, 60) if tier == 'quick' else (5000, 1500)
    for d in run_shards(shard, (nshape, ngen)):
        d['cov'].pop('rejected-msgs', None)
        rep.merge(d)
    floors = [('>= 400 modules introspected', rep.cov.get('modules', 0) >= 400), ('>= 1000 classes compared', rep.cov.get('classes', 0) >= 1000),
              ('>= 1000 client calls', rep.cov.get('client-calls', 0) >= 1000)]
    return rep.finish(floors)


def replay(path):
    common.build()
    obj = json.load(open(path))['witness']
    print('replay: re-run the check (the expected table is regenerated from the seed); source kept in the witness')
    return 0
