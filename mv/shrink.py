"""Deterministic delta debugging on source text: lines first, then tokens, then characters.
`pred(text) -> bool` re-runs the real pipeline and says whether the same monitor still fires with the
same signature."""
from .inputs import TOK


def ddmin(items, pred, join):
    n = 2
    items = list(items)
    while len(items) >= 2:
        chunk = max(1, len(items) // n)
        reduced = False
        i = 0
        while i < len(items):
            cand = items[:i] + items[i + chunk:]
            if cand and pred(join(cand)):
                items = cand
                n = max(n - 1, 2)
                reduced = True
            else:
                i += chunk
        if not reduced:
            if chunk == 1:
                break
            n = min(n * 2, len(items))
    return items


def shrink_text(src, pred, budget=400):
    calls = [0]

    def p(t):
        if calls[0] >= budget:
            return False
        calls[0] += 1
        try:
            return bool(pred(t))
        except Exception:
            return False

    if not p(src):
        return src
    lines = src.split('\n')
    if len(lines) > 1:
        lines = ddmin(lines, p, '\n'.join)
        src = '\n'.join(lines)
    toks = TOK.findall(src)
    if len(toks) > 1 and ''.join(toks) == src:
        toks = ddmin(toks, p, ''.join)
        src = ''.join(toks)
    if len(src) <= 60:
        chars = ddmin(list(src), p, ''.join)
        src = ''.join(chars)
    return src


def shrink_prog(prog, pred, budget=300):
    """Structural shrinking of a generated program (lang.py AST): drop classes, functions, members and
    statements, hoist blocks, while pred(prog) stays true. Deterministic; returns the smaller program."""
    import copy
    from .gen import walk_blocks
    calls = [0]

    def ok(p):
        if calls[0] >= budget:
            return False
        calls[0] += 1
        try:
            return bool(pred(p))
        except Exception:
            return False

    prog = copy.deepcopy(prog)
    changed = True
    while changed and calls[0] < budget:
        changed = False
        for key in ('funs', 'classes'):
            i = 0
            while i < len(prog.get(key, [])):
                cand = copy.deepcopy(prog)
                del cand[key][i]
                if ok(cand):
                    prog = cand; changed = True
                else:
                    i += 1
        for ci, c in enumerate(prog.get('classes', [])):
            i = 0
            while i < len(c.get('members', [])):
                cand = copy.deepcopy(prog)
                del cand['classes'][ci]['members'][i]
                if ok(cand):
                    prog = cand; c = prog['classes'][ci]; changed = True
                else:
                    i += 1
        # statements: address blocks by index in walk order (stable while we only delete inside one block)
        bi = 0
        while True:
            blocks = list(walk_blocks(prog))
            if bi >= len(blocks):
                break
            i = 0
            while i < len(blocks[bi]):
                cand = copy.deepcopy(prog)
                cb = list(walk_blocks(cand))[bi]
                st = cb[i]
                del cb[i]
                if ok(cand):
                    prog = cand; blocks = list(walk_blocks(prog)); changed = True
                    continue
                # hoist: replace a compound statement by one of its blocks
                hoisted = False
                for sub in ([st.get('th'), st.get('el'), st.get('body')] + [b for _, b in st.get('arms', [])] if st['k'] in ('if', 'for', 'forin', 'while', 'match') else []):
                    if isinstance(sub, list) and sub:
                        cand = copy.deepcopy(prog)
                        cb = list(walk_blocks(cand))[bi]
                        cb[i:i + 1] = copy.deepcopy(sub)
                        if ok(cand):
                            prog = cand; blocks = list(walk_blocks(prog)); changed = True; hoisted = True
                            break
                if not hoisted:
                    i += 1
            bi += 1
    return prog
