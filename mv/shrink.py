"""Deterministic delta debugging on source text: lines first, then tokens, then characters.
`pred(text) -> bool` re-runs the real pipeline and says whether the same monitor still fires with the
same signature."""
from .inputs import TOK


def ddmin(items, pred, join):
    n = 2
    items = list(items)
    while len(items) >= 2:
        chunk = max(1, len(items) // n)
        reduced = False
        i = 0
        while i < len(items):
            cand = items[:i] + items[i + chunk:]
            if cand and pred(join(cand)):
                items = cand
                n = max(n - 1, 2)
                reduced = True
            else:
                i += chunk
        if not reduced:
            if chunk == 1:
                break
            n = min(n * 2, len(items))
    return items


def shrink_text(src, pred, budget=400):
    calls = [0]

    def p(t):
        if calls[0] >= budget:
            return False
        calls[0] += 1
        try:
            return bool(pred(t))
        except Exception:
            return False

    if not p(src):
        return src
    lines = src.split('\n')
    if len(lines) > 1:
        lines = ddmin(lines, p, '\n'.join)
        src = '\n'.join(lines)
    toks = TOK.findall(src)
    if len(toks) > 1 and ''.join(toks) == src:
        toks = ddmin(toks, p, ''.join)
        src = ''.join(toks)
    if len(src) <= 60:
        chars = ddmin(list(src), p, ''.join)
        src = ''.join(chars)
    return src
