"""C20 — assignability is a sound order.

The axioms are evaluated on the *real* `Name::is_superset_of`, `Name::union`, `==` and `Hash` against a
*real* `Context` built from Mamba source (public API, `mvh lattice`), over a finite universe, exhaustively
for pairs (and for triples via the pair matrix). End-to-end cross-check: `def x: U := <expr of T>` through
the whole pipeline is accepted iff the API says U >= T."""
import itertools, json, os
from . import common
from .common import Partial, Report, Worker, rng, run_shards

PROP = 'C20'

HIER_SRC = ('class R1\n    def r1: Int := 1\nclass R2\n    def r2: Int := 2\nclass A: R1\nclass B: R1\nclass C: A, B\n'
            'class D: C\nclass E: R2\nclass F: A, R2\nclass X1(msg: Str): Exception(msg)\nclass X2(msg: Str): X1(msg)\n')
PARENTS = {'R1': [], 'R2': [], 'A': ['R1'], 'B': ['R1'], 'C': ['A', 'B'], 'D': ['C'], 'E': ['R2'], 'F': ['A', 'R2'],
           'X1': ['Exception'], 'X2': ['X1'], 'Exception': []}
USER = ['R1', 'R2', 'A', 'B', 'C', 'D', 'E', 'F', 'X1', 'X2']
PRIMS = ['Int', 'Float', 'Complex', 'Bool', 'Str']
OTHER_BUILTIN = ['Exception', 'Range', 'Slice', 'range_iterator', 'str_iterator']


def ancestors(c):
    out = {c}
    for p in PARENTS.get(c, []):
        out |= ancestors(p)
    return out


def universe():
    """List of (type expression, meta). meta: dict(kind=..., ...) used by the axioms."""
    U = []

    def add(e, **meta):
        U.append((e, meta))
    plain = PRIMS + OTHER_BUILTIN + USER
    for t in plain:
        add(t, kind='plain', base=t)
    add('None', kind='none')
    add('Any', kind='any')
    for t in plain:
        add('?' + t, kind='nullable', base=t)
    base_u = ['Int', 'Float', 'Str', 'Bool', 'None', 'R1', 'A', 'B', 'C', 'D', 'E', 'F', 'X1', 'Exception']
    for a, b in itertools.combinations(base_u, 2):
        add(f'U({a}|{b})', kind='union', members=(a, b), order=0)
        add(f'U({b}|{a})', kind='union', members=(a, b), order=1)
    for a in base_u[:6]:
        add(f'U({a}|{a})', kind='union-idem', members=(a,))
    # 3-member unions in all association/insertion orders for a few triples
    for tri in [('Int', 'Str', 'Bool'), ('A', 'B', 'E'), ('Int', 'None', 'A'), ('C', 'D', 'R1')]:
        for perm in itertools.permutations(tri):
            a, b, c = perm
            add(f'U(U({a}|{b})|{c})', kind='union3', members=tri, form='l' + ''.join(perm))
            add(f'U({a}|U({b}|{c}))', kind='union3', members=tri, form='r' + ''.join(perm))
    gb = ['Int', 'Float', 'Str', 'A']
    for g in ('List', 'Set'):
        for x in gb + ['C', '?Int']:
            add(f'G({g};{x})', kind='generic', head=g, args=(x,))
    for x in gb:
        for y in gb:
            add(f'G(Tuple;{x};{y})', kind='generic', head='Tuple', args=(x, y))
            add(f'G(Dict;{x};{y})', kind='generic', head='Dict', args=(x, y))
    for x in gb:
        add(f'G(Tuple;{x})', kind='generic', head='Tuple', args=(x,))
    add('G(Tuple;Int;Str;Bool)', kind='generic', head='Tuple', args=('Int', 'Str', 'Bool'))
    for inner in ['G(List;Int)', 'G(Set;Str)', 'G(Tuple;Int;Str)', 'G(List;A)', 'G(List;C)']:
        add(f'G(List;{inner})', kind='generic2', head='List', args=(inner,))
        add(f'G(Set;{inner})', kind='generic2', head='Set', args=(inner,))
    add('G(Tuple;G(List;Int);Str)', kind='generic2', head='Tuple', args=('G(List;Int)', 'Str'))
    add('G(Dict;Str;G(List;Int))', kind='generic2', head='Dict', args=('Str', 'G(List;Int)'))
    # function types: reflexivity only
    for f in ['G(Callable;G(Tuple;Int);Int)', 'G(Callable;G(Tuple;Int;Str);Bool)', 'G(Callable;G(Tuple;A);R1)', 'G(Callable;G(Tuple);Str)']:
        add(f, kind='fun')
    return U


def shard_matrix(i, n, exprs, rep_no):
    w = Worker()
    N = len(exprs)
    per = (N + n - 1) // n
    lo, hi = i * per, min(N, (i + 1) * per)
    r = w.lattice(HIER_SRC, lo, hi, exprs) if lo < hi else {'k': 'ok', 'lo': lo, 'hi': lo, 'sup': [], 'eq': [], 'errs': [], 'names': [], 'classes': []}
    w.close()
    if r.get('k') != 'ok':
        raise common.Inconclusive('lattice worker: ' + str(r)[:200])
    return r


def matrix(exprs, rep_no=0):
    parts = run_shards(shard_matrix, (exprs, rep_no))
    sup, eq, errs, names, classes = [], [], [], None, None
    for p in sorted(parts, key=lambda p: p['lo']):
        sup += p['sup']; eq += p['eq']; errs += p['errs']
        names = names or p['names'] or None
        classes = classes or p['classes'] or None
    return sup, eq, errs, names, classes


def shape(meta):
    k = meta['kind']
    if k in ('plain', 'nullable'):
        b = meta['base']
        cat = 'prim' if b in PRIMS else ('user' if b in USER else 'builtin')
        return f'{k}-{cat}'
    if k.startswith('generic'):
        return f"{k}-{meta['head']}{len(meta['args'])}"
    return k


def check_axioms(U, sup, eq, rep):
    """Evaluate every axiom on the matrices. sup[i][j] == '1' <=> U[i] >= U[j] (U[j] usable where U[i])."""
    N = len(U)
    idx = {e: i for i, (e, _) in enumerate(U)}

    def S(i, j):
        return sup[i][j]

    def viol(axiom, *ids):
        sig = f"{axiom}:" + ','.join(shape(U[i][1]) for i in ids)
        if axiom == 'union-below-iff-members':
            # one defect, many member choices: U, then the sorted member shapes with plain-* collapsed
            mem = sorted(shape(U[i][1]).split('-')[0] for i in ids[2:])
            sig = f"{axiom}:U={shape(U[ids[0]][1])};members={'+'.join(mem)}"
        rep.violation(sig, {'kind': 'axiom', 'axiom': axiom, 'types': [U[i][0] for i in ids],
                            'cells': {f'{U[a][0]}>={U[b][0]}': S(a, b) for a in ids for b in ids}})

    # error / panic cells
    for i in range(N):
        for j in range(N):
            c = S(i, j)
            if c in 'EP':
                if U[i][1]['kind'] == 'fun' or U[j][1]['kind'] == 'fun':
                    rep.count('fun-cell-error'); continue
                viol('lookup-error' if c == 'E' else 'panic', i, j)
            rep.count('cell-' + c)
    # reflexivity (all, incl. function types) and eq/hash consistency
    for i in range(N):
        if S(i, i) != '1':
            viol('reflexive', i)
        else:
            rep.held(('refl', shape(U[i][1])))
        if eq[i][i] != '1':
            viol('eq-reflexive-or-hash', i)
        for j in range(N):
            if eq[i][j] == 'H':
                viol('eq-but-hash-differs', i, j)
            if eq[i][j] != eq[j][i] and 'H' not in (eq[i][j], eq[j][i]):
                viol('eq-symmetric', i, j)
    nofun = [i for i in range(N) if U[i][1]['kind'] != 'fun']
    # transitivity over the whole (non-function) universe, from the pair matrix
    ups = {i: [k for k in nofun if S(k, i) == '1'] for i in nofun}      # k >= i
    ntri = 0
    for j in nofun:
        downs = [i for i in nofun if S(j, i) == '1']                    # j >= i
        for k in ups[j]:                                               # k >= j
            for i in downs:
                ntri += 1
                if S(k, i) != '1':
                    viol('transitive', k, j, i)
    rep.held(('transitive-triples',), n=ntri)
    rep.count('triples-with-both-premises', ntri)
    rep.count('triples-total', len(nofun) ** 3)
    # Any top for non-nullable types; nullable rules
    any_i = idx['Any']; none_i = idx['None']
    for i in nofun:
        m = U[i][1]
        # `None` itself is a class of the default context and not of the form T?: Any is above it (only T? and unions with None are exempt)
        nullable_or_none = m['kind'] == 'nullable' or (m['kind'].startswith('union') and 'None' in m.get('members', ()))
        if not nullable_or_none:
            if S(any_i, i) != '1':
                viol('any-top', i)
            else:
                rep.held(('any-top', shape(m)))
        if m['kind'] == 'nullable':
            b = idx[m['base']]
            if S(i, b) != '1': viol('T<=T?', b, i)
            if S(i, none_i) != '1': viol('None<=T?', i)
            if S(b, i) == '1': viol('T?<=T', b, i)
            if S(b, none_i) == '1': viol('None<=T', b)
            rep.held(('nullable', m['base']))
    # class hierarchy
    hier = USER + ['Exception']
    for a in hier:
        for b in hier:
            want = '1' if b in ancestors(a) else '0'        # a usable where b  <=>  b >= a
            got = S(idx[b], idx[a])
            if got != want:
                viol('ancestor' if want == '1' else 'unrelated-class', idx[b], idx[a])
            else:
                rep.held(('hier', a, b))
    # generic instantiations of one head and arity: "not to unrelated classes" - when some argument pair is unrelated in BOTH
    # directions (per the observed matrix) the instantiations are unrelated whatever variance the checker chose
    gens = [i for i in nofun if U[i][1]['kind'].startswith('generic')]
    for i in gens:
        mi = U[i][1]
        for j in gens:
            mj = U[j][1]
            if i == j or mi['head'] != mj['head'] or len(mi['args']) != len(mj['args']):
                continue
            pairs = [(idx.get(x), idx.get(y)) for x, y in zip(mi['args'], mj['args'])]
            if any(a is None or b is None for a, b in pairs):
                continue
            # only argument pairs that are two unrelated *classes* (plain kinds) count: the property does not say how a nullable
            # argument inside a generic relates (the tree accepts List[Int?] where List[Float] is wanted - observed, not judged)
            unrelated_at = [k for k, (a, b) in enumerate(pairs) if S(a, b) == '0' and S(b, a) == '0'
                            and U[a][1]['kind'] == 'plain' and U[b][1]['kind'] == 'plain']
            if not unrelated_at:
                continue
            if S(i, j) == '1':
                viol('generic-unrelated-argument', i, j)
            else:
                rep.held(('generic-unrelated-arg', mi['head'], len(pairs), tuple(unrelated_at)))
    # unions
    for i in nofun:
        m = U[i][1]
        if m['kind'] == 'union':
            a, b = (idx[x] for x in m['members'])
            if S(i, a) != '1' or S(i, b) != '1':
                viol('union-accepts-members', i, a, b)
            for u in nofun:
                want = '1' if (S(u, a) == '1' and S(u, b) == '1') else '0'
                if S(u, i) != want:
                    viol('union-below-iff-members', u, i, a, b)
            rep.held(('union', m['members']))
            if m['order'] == 0:
                j = idx[f"U({m['members'][1]}|{m['members'][0]})"]
                if eq[i][j] != '1':
                    viol('union-commutative-eq', i, j)
                if sup[i] != sup[j] or any(sup[k][i] != sup[k][j] for k in range(N)):
                    viol('union-order-dependent', i, j)
        elif m['kind'] == 'union-idem':
            a = idx[m['members'][0]]
            if eq[i][a] != '1' or sup[i] != sup[a]:
                viol('union-idempotent', i, a)
            else:
                rep.held(('idem', m['members']))
    # associativity / insertion order for 3-member unions: all 12 forms of a triple equal
    groups = {}
    for i in nofun:
        m = U[i][1]
        if m['kind'] == 'union3':
            groups.setdefault(m['members'], []).append(i)
    for tri, ids in groups.items():
        first = ids[0]
        for j in ids[1:]:
            if eq[first][j] != '1':
                viol('union-associative-eq', first, j)
            elif sup[first] != sup[j] or any(sup[k][first] != sup[k][j] for k in range(N)):
                viol('union-order-dependent', first, j)
            else:
                rep.held(('assoc', tri, U[j][1]['form']))


# ------------------------------------------------------------------------------------- end to end
E2E = {  # type expr -> (mamba type syntax, prelude, canonical expression)
    'Int': ('Int', '', '1'), 'Float': ('Float', '', '2.5'), 'Str': ('Str', '', '"s"'), 'Bool': ('Bool', '', 'True'),
    'Complex': ('Complex', '', None),
}
for c in USER[:8]:
    E2E[c] = (c, '', f'{c}()')
for t in ['Int', 'Float', 'Str', 'Bool'] + USER[:8]:
    E2E['?' + t] = (t + '?', f'def v: {t}? := None\n', 'v')
E2E['None'] = (None, '', 'None')
E2E['G(List;Int)'] = ('List[Int]', '', '[1, 2]')
E2E['G(List;Float)'] = ('List[Float]', '', '[1.5]')
E2E['G(List;Str)'] = ('List[Str]', '', '["s"]')
E2E['G(Set;Int)'] = ('Set[Int]', '', '{1, 2}')
E2E['G(Tuple;Int;Str)'] = ('(Int, Str)', '', '(1, "s")')
E2E['G(Tuple;Float;Str)'] = ('(Float, Str)', '', '(1.5, "s")')
E2E['G(Tuple;Int;Int)'] = ('(Int, Int)', '', '(1, 2)')


def shard_e2e(i, n, U, sup):
    w = Worker(); part = Partial()
    idx = {e: k for k, (e, _) in enumerate(U)}
    pairs = [(t, u) for t in E2E for u in E2E if E2E[t][2] is not None and E2E[u][0] is not None and t in idx and u in idx]
    for k, (t, u) in enumerate(pairs):
        if k % n != i:
            continue
        uty, _, _ = E2E[u]
        _, prel, expr = E2E[t]
        src = HIER_SRC + prel + f'def x: {uty} := {expr}\n'
        r = w.pipe(src)
        if r.get('k') not in ('ok', 'err'):
            part.inconc('e2e-' + str(r.get('k'))); continue
        api = sup[idx[u]][idx[t]] == '1'
        acc = r['k'] == 'ok'
        part.count('e2e-pairs')
        if api != acc:
            sig = f"e2e-{'api-yes-pipeline-rejects' if api else 'api-no-pipeline-accepts'}:{shape(U[idx[u]][1])}<-{shape(U[idx[t]][1])}"
            part.violation(sig, {'kind': 'e2e', 'T': t, 'U': u, 'src': src, 'api': api, 'pipeline': r['k'],
                                 'errs': [e[:300] for e in r.get('errs', [])][:2]})
        else:
            part.held(('e2e', u, t))
            if acc and part.cov.get('e2e-pairs', 0) % 50 == 1:
                part.sample({'e2e': f'def x: {uty} := {expr}', 'accepted': acc, 'api_U>=T': api})
    w.close()
    return part.dump()


def selftest():
    """Canary: a non-transitive toy relation and a non-commutative union must be seen."""
    U = [('Int', dict(kind='plain', base='Int')), ('Float', dict(kind='plain', base='Float')), ('Complex', dict(kind='plain', base='Complex')),
         ('Any', dict(kind='any')), ('None', dict(kind='none'))]
    sup = ['10000', '11000', '01100', '11110', '00001']   # Complex >= Float >= Int but not Complex >= Int
    eq = ['10000', '01000', '00100', '00010', '00001']

    class R:
        def __init__(s): s.v = []
        def violation(s, sig, w): s.v.append(sig)
        def held(s, *a, **k): pass
        def count(s, *a, **k): pass
    r = R()
    # restrict the axiom checker to what the toy universe has
    global USER
    saved = USER; USER = []
    try:
        check_axioms(U + [], sup, eq, r)
    except KeyError:
        pass
    finally:
        USER = saved
    assert any(s.startswith('transitive') for s in r.v), r.v


def main(tier):
    common.build()
    selftest()
    rep = Report(PROP, tier, 'exploration')
    U = universe()
    exprs = [e for e, _ in U]
    rep.rule = ('one evaluation = one axiom instance (pair, triple with both premises true, union law) evaluated on the real '
                'is_superset_of/union/==/hash; distinct = distinct (axiom, types) instances that held; non-trivial = the '
                'instance\'s premises hold (e.g. only triples with a>=b and b>=c count)')
    rep.assumptions = ['the universe is built through the public constructors (Name::from, as_nullable, union, StringName::new)',
                       'function types are judged for reflexivity only (as the property states)',
                       'end-to-end: `def x: U := e` acceptance is the user-visible form of U >= type(e)']
    sup, eq, errs, names, classes = matrix(exprs)
    if len(sup) != len(U):
        raise common.Inconclusive(f'matrix rows {len(sup)} != universe {len(U)}')
    rep.notes.append({'universe': len(U), 'context_classes': classes, 'lookup_errors_sample': errs[:5]})
    check_axioms(U, sup, eq, rep)
    rep.known_live = {sig: (sig in rep.known_hits) for sig in rep.known.known}
    # repetitions: fresh Context and fresh hash seeds each time; answers must not change
    reps = 3 if tier == 'quick' else 10
    for k in range(reps):
        sup2, eq2, _, _, _ = matrix(exprs, k + 1)
        if sup2 != sup or eq2 != eq:
            for i in range(len(U)):
                if sup2[i] != sup[i] or eq2[i] != eq[i]:
                    j = next(j for j in range(len(U)) if sup2[i][j] != sup[i][j] or eq2[i][j] != eq[i][j])
                    rep.violation(f'answer-changes-between-runs:{shape(U[i][1])},{shape(U[j][1])}',
                                  {'kind': 'repeat', 'types': [exprs[i], exprs[j]], 'first': sup[i][j] + eq[i][j], 'later': sup2[i][j] + eq2[i][j]})
                    break
        else:
            rep.held(('repetition', k), n=len(U) ** 2)
    for d in run_shards(shard_e2e, (U, sup)):
        rep.merge(d)
    rep.sample({'types': [names[i] for i in (0, 21, 45, 60, 200)] if names and len(names) > 200 else exprs[:5],
                'example_rows': {exprs[0]: sup[0][:40]}})
    floors = [('universe >= 300 types', len(U) >= 300),
              ('pair matrix complete', all(len(r) == len(U) for r in sup)),
              ('>= 10000 triples with both premises true', rep.cov.get('triples-with-both-premises', 0) >= 10000),
              ('>= 400 end-to-end pairs', rep.cov.get('e2e-pairs', 0) >= 400)]
    return rep.finish(floors, extra_cov={'universe_types': len(U), 'pairs': len(U) ** 2, 'repetitions': reps}, exhaustive=True)


def replay(path):
    common.build()
    obj = json.load(open(path))
    wit = obj['witness']
    if wit.get('kind') == 'e2e':
        w = Worker()
        r = w.pipe(wit['src'])
        w.close()
        print('pipeline:', r.get('k'), 'api said U>=T:', wit['api'])
        if (r.get('k') == 'ok') != wit['api']:
            print(f'VIOLATION property={PROP} replay={path}')
            return 1
        return 0
    U = universe()
    exprs = [e for e, _ in U]
    sup, eq, *_ = matrix(exprs)
    rep = Report(PROP, 'quick', 'exploration')
    check_axioms(U, sup, eq, rep)
    if obj['sig'] in rep.violations or obj['sig'] in rep.known_hits:
        print(f'VIOLATION property={PROP} replay={path}')
        return 1
    print('replay: held')
    return 0
