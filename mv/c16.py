"""C16 — emitted modules are self-contained: generator-used names are imported once, at the top; user
imports are reproduced unchanged.

Oracle on the exact emitted text (symtable + ast): the free global names of the module are a subset of
Python builtins plus what the user's own imports bind; no name is imported twice; all imports precede the
first other statement; every user import statement of the source appears unchanged. Dynamic confirmation:
the module is executed (NameError at import time)."""
import ast, json, os
from . import common, lang, gen, sweeps, pyana, behave
from .common import Partial, Report, Worker, rng, run_shards

PROP = 'C16'

# snippets that need a support import (or interact with one); names are unique per snippet so that any subset combines
SNIPPETS = {
    'sqrt-top': 'def s_a: Float := sqrt 16\nprint(s_a)',
    'sqrt-in-function': 'def s_f(x: Float) -> Float =>\n    def r: Float := sqrt x\n    r\nprint(s_f(4.0))',
    'sqrt-in-method': 'class S_m(def v: Float)\n    def root(self) -> Float =>\n        def r: Float := sqrt self.v\n        r\nprint(S_m(9.0).root())',
    'sqrt-in-if': 'if 1 < 2 then\n    def s_i: Float := sqrt 25\n    print(s_i)',
    'optional-var': 'def o_v: Int? := None\ndef o_w: Int := o_v ? 3\nprint(o_w)',
    'optional-param': 'def o_p(a: Str?) -> Int => 1\nprint(o_p(None))',
    'optional-return': 'def o_r() -> Int? => None\ndef o_rv: Int? := o_r()\nprint("r")',
    'optional-field': 'class O_f(def nf: Int?)\ndef o_fi := O_f(None)\nprint("f")',
    'optional-in-generic': 'def o_g: List[Int?] := [1, None]\nprint("g")',
    'union-if': 'def u_i := if 1 < 2 then 1 else "s"\nprint("u")',
    'union-match': 'def u_m := match 1\n    0 => 20\n    1 => "s"\n    _ => 2.5\nprint("m")',
    'union-declared': 'def u_d: {Int, Str} := 1\nprint("d")',
    'union-param': 'def u_p(a: {Int, Str}) -> Int => 1\nprint(u_p(1))',
    'union-all-nullable-param': 'def u_np(a: {Int?, Str?}) -> Int => 1\nprint(u_np(None))',
    'union-all-nullable-declared': 'def u_nd: {Int?, Str?} := None\nprint("nd")',
    'union-match-with-none': 'def u_mn := match 1\n    0 => 20\n    1 => "s"\n    _ => None\nprint("mn")',
    'union-if-with-none': 'def u_in := if 1 < 2 then 7 else None\nprint("in")',
    'union-list-elements': 'def u_l := [1, "a", True]\nprint("l")',
    'tuple-var': 'def t_v: (Int, Str) := (1, "s")\nprint("t")',
    'tuple-param': 'def t_p(a: (Int, Int)) -> Int => 1\nprint(t_p((1, 2)))',
    'tuple-return': 'def t_r() -> (Int, Str) => (1, "s")\ndef (t_ra, t_rb) := t_r()\nprint(t_ra)',
    'callable-param': 'def c_p(h: (Int) -> Int, v: Int) -> Int => h(v)\nprint(c_p(\\cx: Int => cx + 1, 2))',
    'callable-two-args': 'def c_q(h: (Int, Str) -> Int) -> Int => h(1, "s")\nprint("q")',
    'any-param': 'def a_p(a: Any) -> Int => 1\nprint(a_p("x"))',
    # a support name that occurs ONLY inside a nullable / generic / union type
    'any-only-nullable-param': 'def an_p(key: Str, dflt: Any?) -> Int => 1\nprint(an_p("k", None))',
    'any-only-nullable-field': 'class An_f(def value: Any?)\nprint("anf")',
    'any-only-in-generic': 'def an_g(items: List[Any]) -> Int => 1\nprint(an_g([1]))',
    'any-only-in-union': 'def an_u(a: {Any, Int}) -> Int => 1\nprint("anu")',
    'any-only-as-return': 'def an_r(a: Int) -> Any => a\nprint("anr")',
    'tuple-only-nullable': 'def tn_p(a: (Int, Str)?) -> Int => 1\nprint(tn_p(None))',
    'callable-only-nullable': 'def cn_p(h: ((Int) -> Int)?) -> Int => 1\nprint(cn_p(None))',
    'callable-only-in-generic': 'def cg_p(hs: List[(Int) -> Int]) -> Int => 1\nprint("cg")',
    'union-only-nullable': 'def un_p(a: {Int, Str}?) -> Int => 1\nprint(un_p(None))',
    'tuple-only-in-generic': 'def tg_v: List[(Int, Int)] := [(1, 2)]\nprint("tg")',
    'type-alias': 'type Km: Int when self >= 0\nprint("km")',
    'abstract-type': 'type A_sh\n    def area(self) -> Int\nclass A_sq(def s: Int): A_sh\n    def area(self) -> Int => self.s\nprint(A_sq(2).area())',
    'abstract-with-field': 'type A_nm\n    def label: Str\n    def show(self) -> Str\nprint("abs")',
    'class-plain': 'class P_c(def a: Int)\n    def get(self) -> Int => self.a\nprint(P_c(1).get())',
    'exception-class': 'class X_e(msg: Str): Exception(msg)\ndef x_f() -> Int raise [X_e] => 1\nx_f() handle\n    err: X_e => print("x")',
    'list-set-dict-types': 'def l_a: List[Int] := [1]\ndef l_b: Set[Str] := {"a"}\nprint("ls")',
    'range-loop': 'for r_i in 0 ..= 2 do print(r_i)',
}
USER_IMPORTS = ['import math', 'import math as m', 'from math import floor', 'import os', 'from os import path as p', 'import sys as system', 'from typing import List',
                'import json, re', 'from collections import OrderedDict as OD',
                # imports from the very modules the generator imports from: a generator that merges its imports into the user's must keep aliases and names
                'from typing import TypeVar as TV', 'from typing import TypeVar, Generic', 'from abc import ABC as AbstractBase', 'from typing import NamedTuple as NT, TypeVar as TV2',
                'import typing', 'import abc as abcmod']


def judge(w, src, user_imports, part, origin, flags=(True, False), execute=True):
    for ann in flags:
        res = w.pipe(src, annotate=ann)
        k = res.get('k')
        if k == 'err':
            part.count('rejected'); part.evaluations += 1
            return
        if k != 'ok':
            part.inconc('pipeline-' + str(k)); return
        py = res['py'][0]
        wit = {'kind': 'module', 'origin': origin, 'annotate': ann, 'mamba': src, 'python': py[:4000], 'user_imports': user_imports}
        try:
            rep = pyana.import_report(py)
        except SyntaxError:
            part.count('output-not-python (C02 owns it)'); return
        part.count('modules-analysed')
        # names the user's own imports bind
        ubind = set()
        for ui in user_imports:
            for st in ast.parse(ui).body:
                for a in st.names:
                    ubind.add((a.asname or a.name).split('.')[0])
        support_used = pyana.support_names_used(py)
        for n in sorted(support_used):
            part.count('support-name:' + n)
        free = rep['free'] - ubind
        bad = False
        if free:
            kind = 'support' if free & (pyana.SUPPORT['typing'] | pyana.SUPPORT['abc'] | {'math'}) else 'other'
            part.violation(f"unbound-global:{kind}:{'+'.join(sorted(free))[:60]}", dict(wit, free=sorted(free))); bad = True
        # "exactly once" is about what the GENERATOR adds: imports of the output that are not user imports
        stmts = [st for st in ast.parse(py).body if isinstance(st, (ast.Import, ast.ImportFrom))]
        user_dumps = [ast.dump(ast.parse(ui).body[0]) for ui in user_imports]
        gen_stmts = []
        for st in reversed(stmts):       # the generator prepends: of two equal statements the later one is the user's
            d = ast.dump(st)
            if d in user_dumps:
                user_dumps.remove(d)
            else:
                gen_stmts.insert(0, st)
        gen_names = [(a.asname or a.name).split('.')[0] for st in gen_stmts for a in st.names]
        all_names = [(a.asname or a.name).split('.')[0] for st in stmts for a in st.names]
        dup = sorted({n_ for n_ in gen_names if all_names.count(n_) > 1})
        if dup:
            part.violation(f"imported-twice:{'+'.join(dup)[:60]}", dict(wit, dup=dup)); bad = True
        # placement is about what the GENERATOR adds as well: the user's own imports stay where the user put them
        body_ = ast.parse(py).body
        first_other = next((k_ for k_, st in enumerate(body_) if not isinstance(st, (ast.Import, ast.ImportFrom))
                            and not (isinstance(st, ast.Expr) and isinstance(st.value, ast.Constant) and isinstance(st.value.value, str))), len(body_))
        gen_lines = {st.lineno for st in gen_stmts}
        late = [ast.unparse(st) for k_, st in enumerate(body_) if k_ > first_other and isinstance(st, (ast.Import, ast.ImportFrom)) and st.lineno in gen_lines]
        if late:
            part.violation('import-after-first-statement', dict(wit, late=late)); bad = True
        # user imports reproduced unchanged (compared as ASTs of single statements)
        out_imports = [ast.dump(st) for st in ast.parse(py).body if isinstance(st, (ast.Import, ast.ImportFrom))]
        for ui in user_imports:
            want = ast.dump(ast.parse(ui).body[0])
            if want not in out_imports:
                part.violation(f'user-import-altered:{"aliased" if " as " in ui else "plain"}:{"from" if ui.startswith("from") else "import"}', dict(wit, missing=ui)); bad = True
        if execute and not bad:
            lines, exc, o = behave.observe(py)
            if o['status'] == 'ok' and exc in ('NameError', 'ImportError', 'ModuleNotFoundError'):
                part.violation(f'import-time-{exc}', dict(wit, detail=o['detail'])); bad = True
            part.count('executed')
        if not bad:
            part.held((origin.split(':')[0], ann, tuple(sorted(support_used))))
            if part.evaluations % 60 == 1:
                part.sample({'origin': origin, 'annotate': ann, 'support_names': sorted(support_used), 'imports': [ast.unparse(s_) for s_ in ast.parse(py).body if isinstance(s_, (ast.Import, ast.ImportFrom))],
                             'mamba_head': src[:240]})


def build(r, names, imports, late=False):
    """late: the user's imports stand AFTER the code (legal; the generator's own imports must nevertheless precede the first use)"""
    if late:
        return '\n'.join([SNIPPETS[n] for n in names] + imports + ['print("after-imports")']) + '\n'
    return '\n'.join(imports + [SNIPPETS[n] for n in names]) + '\n'


def shard(i, n, nrandom):
    w = Worker(watchdog=60); part = Partial()
    k = 0
    names = list(SNIPPETS)
    # every snippet alone, with and without each user import form
    for nm in names:
        for ui in [None] + USER_IMPORTS:
            k += 1
            if k % n == i:
                judge(w, build(None, [nm], [ui] if ui else []), [ui] if ui else [], part, f'single:{nm}+{ui}')
                part.count('single-cells')
    # the same with the user import placed after the snippet
    for nm in names:
        for ui in USER_IMPORTS[:6]:
            k += 1
            if k % n == i and (k // n) % 2 == common.SEED % 2:
                judge(w, build(None, [nm], [ui], late=True), [ui], part, f'single-late-import:{nm}+{ui}')
                part.count('late-import-cells')
    # every pair of snippets (order both ways matters for "first use")
    for a in names:
        for b in names:
            if a == b:
                continue
            k += 1
            if k % n == i and (hash((a, b)) % 3 == 0 or 'union' in a + b or 'optional' in a + b):
                judge(w, build(None, [a, b], []), [], part, f'pair:{a}+{b}', flags=(True,) if k % 2 else (False,))
                part.count('pair-cells')
    for j in range(nrandom):
        k += 1
        if k % n != i:
            continue
        r = rng(PROP, 'combo', j)
        sel = r.sample(names, r.randrange(2, 6))
        uis = r.sample(USER_IMPORTS, r.choice([0, 0, 1, 2]))
        judge(w, build(r, sel, uis), uis, part, f'combo:{j}')
        part.count('combo-programs')
    for j in range(nrandom // 2):
        k += 1
        if k % n != i:
            continue
        r = rng(PROP, 'gen', j)
        prog, _ = gen.generate(r)
        judge(w, lang.to_mamba(prog), [], part, f'generated:{j}')
        part.count('generated-programs')
    for kk, (cell, prog) in enumerate(sweeps.cells()):
        k += 1
        if k % n == i and kk % 4 == 0:
            judge(w, lang.to_mamba(prog), [], part, 'sweep:' + cell, flags=(True,))
    for rel, src in common.repo_samples('valid'):
        k += 1
        if k % n == i:
            uis = [l for l in src.split('\n') if l.startswith(('import ', 'from '))]
            try:
                for u in uis:
                    ast.parse(u)
            except SyntaxError:
                uis = []
            judge(w, src, uis, part, 'sample:' + rel, execute=False)
            part.count('samples')
    w.close()
    return part.dump()


def selftest():
    rep = pyana.import_report('from typing import Union\nx: Optional[int] = None\nimport math\nimport math\nprint(math.sqrt(2))\n')
    assert 'Optional' in rep['free'] and 'math' in rep['dup'] and rep['late'], rep
    rep = pyana.import_report('import math\ndef f(a):\n    return math.sqrt(a) + undefined_name\n')
    assert rep['free'] == {'undefined_name'}, rep


def replay_entries(rep):
    rep.known_live = {}
    w = Worker(watchdog=60)
    entries = [(sig, wit) for sig, (wit, _) in rep.known.known.items()] + [(None, x[2]) for x in rep.known.fixed if x[2]]
    for sig, wit in entries:
        obj = json.load(open(os.path.join(common.ROOT, wit)))
        part = Partial()
        judge(w, obj['mamba'], obj.get('user_imports', []), part, 'finding:' + wit)
        if sig is not None:
            rep.known_live[sig] = sig in part.violations
        for s, (wt, c) in part.violations.items():
            rep.violation(s, wt)
    w.close()


def main(tier):
    common.build()
    selftest()
    rep = Report(PROP, tier, 'exploration')
    rep.rule = ('one evaluation = one emitted module analysed with symtable/ast (free globals, duplicate imports, import placement, user imports reproduced) and executed; workload: '
                'every import-needing construct alone x every user-import form, pairs and random combinations of constructs (so that e.g. an all-nullable union occurs without any '
                'other Optional in the module), generated programs, the sweep and repository samples, both flags; distinct = distinct (origin kind, flag, set of support names used)')
    rep.assumptions = ['support names: math; Optional, Union, Tuple, Callable, Any, NewType from typing; ABC, abstractmethod from abc', 'the names bound by the user\'s own import statements are allowed free names']
    replay_entries(rep)
    nrandom = 300 if tier == 'quick' else 6000
    for d in run_shards(shard, (nrandom,)):
        rep.merge(d)
    need = ['math', 'Optional', 'Union', 'Tuple', 'Callable', 'Any', 'NewType', 'ABC', 'abstractmethod']
    seen = [n for n in need if rep.cov.get('support-name:' + n, 0) > 0]
    floors = [(f'every support name observed in some output ({len(seen)}/{len(need)}: missing {sorted(set(need) - set(seen))})', len(seen) == len(need)),
              ('>= 800 modules analysed', rep.cov.get('modules-analysed', 0) >= 800), ('>= 500 modules executed', rep.cov.get('executed', 0) >= 500)]
    return rep.finish(floors)


def replay(path):
    common.build()
    obj = json.load(open(path))['witness']
    w = Worker(watchdog=60); part = Partial()
    judge(w, obj['mamba'], obj.get('user_imports', []), part, 'replay', flags=(obj['annotate'],))
    w.close()
    if part.violations:
        print(f'VIOLATION property={PROP} replay={path}')
        return 1
    print('replay: held')
    return 0
