"""C01 — accepted programs keep their meaning as emitted Python (both annotate settings).

History-vs-model: history = (printed lines, class of the uncaught exception) of the emitted module under
CPython; model = the reference interpreter (lang.Interp) on the generator's AST. Workload: the systematic
sweep (every construct x every context) and seeded random programs, each under annotate on and off."""
import copy, json, os
from . import common, lang, gen, behave, sweeps
from .common import Partial, Report, Worker, rng, run_shards
from .shrink import shrink_prog

PROP = 'C01'
GO_WRONG = ('TypeError', 'AttributeError', 'NameError', 'UnboundLocalError')


def tags(prog):
    """Construct tags of a (shrunk) program: the path-independent fingerprint used in signatures."""
    out = set()

    def ex(x):
        if not isinstance(x, dict) or 'k' not in x:
            return
        k = x['k']
        if k == 'bin':
            out.add('op' + x['op'])
        elif k not in ('lit', 'var'):
            out.add(k)
        for v in x.values():
            if isinstance(v, dict):
                ex(v)
            elif isinstance(v, list):
                for y in v:
                    if isinstance(y, dict):
                        ex(y)
                    elif isinstance(y, (list, tuple)):
                        for z in y:
                            if isinstance(z, dict):
                                ex(z)
                            elif isinstance(z, list):
                                for q in z:
                                    ex(q)

    for b in gen.walk_blocks(prog):
        for st in b:
            k = st['k']
            if k == 'for':
                r = st['r']
                step = r.get('step')
                neg = step is not None and ((step['k'] == 'lit' and step['v'] < 0) or step['k'] != 'lit')
                out.add('for' + ('-incl' if r['incl'] else '') + ('-step' if step is not None else '') + ('-neg-or-var' if neg else ''))
            else:
                out.add(k)
            ex(st)
    if prog.get('classes'):
        out.add('class')
        if any(c.get('parents') and not c.get('is_exc') for c in prog['classes']):
            out.add('inherit')
    if prog.get('funs'):
        out.add('fun')
    return sorted(out)


def evaluate(w, prog, part, origin, flags=(True, False), shrink=True, cell=None):
    """Run one program under the flags; report divergences. Returns number of executed runs."""
    src = lang.to_mamba(prog)
    exp = behave.expected(prog)
    ran = 0
    for ann in flags:
        res = w.pipe(src, annotate=ann)
        k = res.get('k')
        if k == 'err':
            part.count('rejected')       # over-rejection is C05's business
            part.evaluations += 1
            part.cov.setdefault('rejected-msgs', {})
            m = behave.norm_err(res['errs'][0])
            part.cov['rejected-msgs'][m] = part.cov['rejected-msgs'].get(m, 0) + 1
            if cell:
                part.cov.setdefault('rejected-cells', []).append(cell)
            return ran
        if k != 'ok':
            part.inconc('pipeline-' + str(k))     # crashes are C03's business
            return ran
        if exp is None:
            part.inconc('model-declined')
            return ran
        py = res['py'][0]
        lines, exc, o = behave.observe(py)
        if o['status'] != 'ok':
            part.inconc('python-' + o['status'])
            continue
        ran += 1
        part.count('executed')
        if exc:
            part.count('exc:' + (exc if exc in lang.BUILTIN_EXC or exc in GO_WRONG else 'user-class'))
        d = behave.compare(exp, lines, exc)
        if d is None:
            part.held((origin.split(':')[0], tuple(tags(prog))[:12], ann))
            if part.cov.get('executed', 0) % 60 == 1:
                part.sample({'origin': origin, 'annotate': ann, 'mamba': src[:700], 'printed': lines[:8], 'exception': exc})
            continue
        # confirmed by re-running once more (fresh transpile + fresh interpreter process)
        res2 = w.pipe(src, annotate=ann)
        if res2.get('k') != 'ok':
            part.inconc('flaky-pipeline'); continue
        lines2, exc2, _ = behave.observe(res2['py'][0])
        if behave.compare(exp, lines2, exc2) != d:
            part.inconc('flaky-divergence'); continue
        small = prog
        if shrink:
            def pred(p, ann=ann, d=d):
                e = behave.expected(p)
                if e is None:
                    return False
                r = w.pipe(lang.to_mamba(p), annotate=ann)
                if r.get('k') != 'ok':
                    return False
                l, x, oo = behave.observe(r['py'][0])
                return oo['status'] == 'ok' and behave.compare(e, l, x) == d
            small = shrink_prog(prog, pred, budget=150)
        ssrc = lang.to_mamba(small)
        sexp = behave.expected(small)
        r3 = w.pipe(ssrc, annotate=ann)
        l3, x3, _ = behave.observe(r3['py'][0]) if r3.get('k') == 'ok' else ([], None, None)
        sig = f"{d.split(':')[0] if d.startswith('exception') else d}:{'+'.join(tags(small))}"
        if cell:
            sig = f'sweep:{cell}:{d}'
        part.violation(sig, {'kind': 'program', 'origin': origin, 'annotate': ann, 'divergence': d, 'mamba': ssrc, 'python': r3.get('py', [''])[0] if r3.get('k') == 'ok' else None,
                             'expected': {'lines': sexp[0] if sexp else None, 'exception': sexp[1] if sexp else None},
                             'observed': {'lines': l3, 'exception': x3}, 'prog': small, 'unshrunk_mamba': src if small is not prog else None})
        part.count('disagreements-checked')
    return ran


def shard_sweep(i, n):
    w = Worker(watchdog=60); part = Partial()
    for k, (cell, prog) in enumerate(sweeps.cells()):
        if k % n != i:
            continue
        ran = evaluate(w, prog, part, 'sweep:' + cell, shrink=False, cell=cell)
        part.count('sweep-cells')
        if ran == 2:
            part.count('sweep-cells-executed-both-flags')
    w.close()
    return part.dump()


def shard_random(i, n, count):
    w = Worker(watchdog=60); part = Partial()
    for k in range(i, count, n):
        r = rng(PROP, 'random', k)
        feats = {'size': 2} if k % 10 == 0 else None
        prog, cov = gen.generate(r, feats)
        if k % 3 == 1:
            prog['layout'] = k      # single-statement blocks attached to their header line at a per-site choice
            part.count('random-programs-with-attached-layout')
        ran = evaluate(w, prog, part, f'random:{k}')
        part.count('random-programs')
        if ran:
            part.count('random-programs-executed')
        for c, v in cov.items():
            part.count('gen:' + c, v)
    w.close()
    return part.dump()


def value_position_expected(vname, cname, tup, k):
    """What `subj(k)` of c02.value_position_shapes() means: the value of the construct where it is the function's value, else the trailing B."""
    A, B = ((1, 2), (3, 4)) if tup else (1, 2)
    if cname not in ('tail', 'return', 'tail-after-statement'):
        return B
    if vname in ('if-block', 'if-oneline'):
        return A if k > 1 else B
    if vname == 'if-block-nested':
        return (A if k > 5 else B) if k > 1 else B
    if vname == 'if-oneline-then-match':
        return (A if k == 2 else B) if k > 1 else B
    if vname in ('match', 'match-block-arms'):
        return A if k == 1 else B
    return B if k > 2 else ((k, k) if tup else k)      # handle: risky(k) raises for k > 2


def shard_value_positions(i, n):
    """value-producing compound constructs x value-consuming positions (text templates shared with C02): each accepted (shape, flag) is run
    for five arguments and compared with the meaning written down above."""
    from . import c02, pyrun
    w = Worker(watchdog=60); part = Partial()
    KS = (0, 1, 2, 3, 6)
    for j, (name, src) in enumerate(c02.value_position_shapes().items()):
        if j % n != i:
            continue
        _, vname, cname, tt = name.split(':')
        for ann in (True, False):
            res = w.pipe(src, annotate=ann)
            part.count('value-position-cells')
            if res.get('k') == 'err':
                part.count('rejected'); part.evaluations += 1
                continue
            if res.get('k') != 'ok':
                part.inconc('pipeline-' + str(res.get('k'))); continue
            py = res['py'][0].replace('print("end")', '') + f'\nprint([subj(k) for k in {KS!r}])\n'
            o = pyrun.run(py)
            if o['status'] != 'ok':
                part.inconc('python-' + o['status']); continue
            exp = str([value_position_expected(vname, cname, tt == 'tuple', k) for k in KS])
            got = o['lines'][-1] if o['lines'] else None
            part.count('value-position-executed'); part.count('executed')
            if o['exc'] or got != exp:
                d = ('exception:' + str(o['exc'])) if o['exc'] else 'value-differs'
                part.violation(f'value-position:{vname}:{cname}:{d}', {'kind': 'text-program', 'origin': name, 'annotate': ann, 'mamba': src, 'python': res['py'][0][:3000],
                                                                       'expected': exp, 'observed': got, 'exception': o['exc'], 'detail': o.get('detail')})
            else:
                part.held(('value-position', vname, cname, tt, ann))
    w.close()
    return part.dump()


def replay_entries(rep):
    rep.known_live = {}
    w = Worker(watchdog=60)
    entries = [(sig, wit) for sig, (wit, _) in rep.known.known.items()] + [(None, x[2]) for x in rep.known.fixed if x[2]]
    for sig, wit in entries:
        obj = json.load(open(os.path.join(common.ROOT, wit)))
        part = Partial()
        evaluate(w, obj['prog'], part, 'finding:' + wit, flags=obj.get('flags', [True, False]), shrink=False, cell=obj.get('cell'))
        if sig is not None:
            rep.known_live[sig] = sig in part.violations
        else:
            rep.count('fixed-regressions-replayed')
            if part.cov.get('executed', 0) == 0:
                raise common.Inconclusive('regression witness did not execute: ' + wit)
        for s, (wt, c) in part.violations.items():
            rep.violation(s, wt)
    w.close()


def selftest():
    """Canary: the comparison must see a changed line and a changed exception class; the observer must see output."""
    from . import pyrun
    o = pyrun.run('print(1)\nprint("a")\nraise ValueError("x")\n')
    assert o['lines'] == ['1', 'a'] and o['exc'] == 'ValueError', o
    assert behave.compare((['1', 'a'], 'ValueError'), o['lines'], o['exc']) is None
    assert behave.compare((['1', 'b'], 'ValueError'), o['lines'], o['exc']) == 'line-differs'
    assert behave.compare((['1', 'a'], None), o['lines'], o['exc']).startswith('exception')
    prog = sweeps.wrap(sweeps.payloads()['range..=-2/exact'], 'top')
    assert behave.expected(prog) == (['4', '2', '0', 'end'], None), behave.expected(prog)


def finish(rep, tier, nrandom):
    cov = rep.cov
    gencov = {k[4:]: v for k, v in cov.items() if k.startswith('gen:')}
    for k in list(cov):
        if k.startswith('gen:'):
            del cov[k]
    cov['generator-construct-context-cells'] = len(gencov)
    ncells = len(sweeps.cells())
    exc_classes = [k for k in cov if k.startswith('exc:')]
    rejected_cells = cov.pop('rejected-cells', [])
    cov['sweep-cells-rejected'] = sorted(set(rejected_cells))[:40]
    floors = [(f'all {ncells} sweep cells evaluated', cov.get('sweep-cells', 0) == ncells),
              ('>= 90% of sweep cells executed under both flags', cov.get('sweep-cells-executed-both-flags', 0) >= 0.9 * ncells),
              ('>= 70% of random programs executed', cov.get('random-programs-executed', 0) >= 0.7 * nrandom),
              ('>= 4 exception classes observed', len(exc_classes) >= 4),
              ('>= 200 value-position (shape, flag) pairs executed', cov.get('value-position-executed', 0) >= 200)]
    return rep.finish(floors, extra_cov={'programs': cov.get('sweep-cells', 0) + cov.get('random-programs', 0),
                                         'disagreements_checked': cov.get('disagreements-checked', 0),
                                         'generator_cells': dict(sorted(gencov.items())[:80])})


def merge_all(rep, parts):
    for d in parts:
        rm = d['cov'].pop('rejected-msgs', {})
        rc = d['cov'].pop('rejected-cells', [])
        rep.merge(d)
        tgt = rep.cov.setdefault('rejected-msgs', {})
        for k, v in rm.items():
            tgt[k] = tgt.get(k, 0) + v
        rep.cov.setdefault('rejected-cells', []).extend(rc)


def main(tier):
    common.build()
    selftest()
    rep = Report(PROP, tier, 'translation_validation')
    rep.rule = ('one evaluation = one (program, annotate flag) pair: transpiled by the real pipeline, executed by CPython, compared with '
                'the reference interpreter; distinct = distinct (origin, construct-tag set, flag) among agreeing executions; '
                'non-trivial = the program was accepted and executed')
    rep.assumptions = ['CPython 3.11 defines the behaviour of emitted Python', 'the reference interpreter (mv/lang.py) is the reading of the documented semantics; '
                       'programs on which it declines are not judged', 'programs are closed, deterministic and terminate by construction']
    replay_entries(rep)
    merge_all(rep, run_shards(shard_sweep))
    merge_all(rep, run_shards(shard_value_positions))
    nrandom = 240 if tier == 'quick' else 5000
    merge_all(rep, run_shards(shard_random, (nrandom,)))
    return finish(rep, tier, nrandom)


def replay(path):
    common.build()
    obj = json.load(open(path))['witness']
    if obj.get('kind') == 'text-program':
        d = shard_value_positions(0, 1)
        hit = [v for v in d['violations'] if v[1].get('origin') == obj['origin']]
        print(f'VIOLATION property={PROP} replay={path}' if hit else 'replay: held')
        return 1 if hit else 0
    w = Worker(watchdog=60); part = Partial()
    evaluate(w, obj['prog'], part, 'replay', flags=[obj['annotate']], shrink=False)
    w.close()
    if part.violations:
        print(f'VIOLATION property={PROP} replay={path}')
        return 1
    print('replay: held')
    return 0
