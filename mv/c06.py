"""C06 — null safety: None and T? never flow into non-nullable positions; T, None and `x ? d` are accepted where allowed."""
from . import vsweep, verdict

PROP = 'C06'


def cells():
    return vsweep.c06_cells()


def main(tier):
    return verdict.run(PROP, tier, cells(), 'exploration',
                       rule=('one evaluation = one sweep cell: type T x consuming position (initialiser, reassignment, field, argument, method argument, constructor '
                             'argument, return, operand, receiver) x source (None, T? variable, T? field, T?-returning call, T? parameter, `x ? d`, plain T) x context; '
                             'the nullable rules say accept or reject; distinct = distinct (group, demanded verdict)'),
                       assumptions=['T ranges over Int, Float, Str, Bool, a user class, a tuple type and List[Int]',
                                    'one T per program (structurally equal expressions such as two None literals are unified by the checker: separate finding)'])


def replay(path):
    return verdict.replay(PROP, path, cells)
