"""Observe what CPython does with emitted modules: compile only, or execute in a forked child
with captured stdout, resource limits and a watchdog. Observed behaviour = (printed lines,
class name of the uncaught exception or None)."""
import io, os, resource, select, signal, sys, time, traceback


def compiles(src, name='out.py', detail=False):
    """None if CPython's compiler accepts the text, else 'ExcClass: message' (detail: plus the offending line)."""
    import warnings
    try:
        with warnings.catch_warnings():
            warnings.simplefilter('ignore')
            compile(src, name, 'exec')
        return None
    except (SyntaxError, ValueError, OverflowError, RecursionError, MemoryError) as e:
        msg = e.msg if isinstance(e, SyntaxError) else str(e)
        if detail:
            line = ''
            if isinstance(e, SyntaxError) and e.lineno:
                ls = src.split('\n')
                line = ls[e.lineno - 1] if 0 < e.lineno <= len(ls) else ''
            return f'{type(e).__name__}: {msg}', line, (getattr(e, 'offset', None) or 0)
        return f'{type(e).__name__}: {msg}'


def _child(src, modules, wfd):
    os.dup2(wfd, 1)
    os.dup2(wfd, 2)
    try:
        resource.setrlimit(resource.RLIMIT_CPU, (5, 6))
        resource.setrlimit(resource.RLIMIT_AS, (2 << 30, 2 << 30))
    except Exception:
        pass
    sys.stdout = io.TextIOWrapper(os.fdopen(1, 'wb', closefd=False), encoding='utf-8', errors='backslashreplace',
                                  line_buffering=False)
    sys.stderr = sys.stdout
    sys.setrecursionlimit(3000)
    exc = ''
    try:
        if modules:
            # other files of the project, importable by module name
            import importlib.abc, importlib.util

            class Finder(importlib.abc.MetaPathFinder, importlib.abc.Loader):
                def find_spec(self, name, path, target=None):
                    if name in modules:
                        return importlib.util.spec_from_loader(name, self)
                    return None

                def create_module(self, spec):
                    return None

                def exec_module(self, module):
                    exec(compile(modules[module.__name__], module.__name__ + '.py', 'exec'), module.__dict__)

            sys.meta_path.insert(0, Finder())
        g = {'__name__': '__main__', '__builtins__': __builtins__}
        exec(compile(src, 'out.py', 'exec'), g)
    except SystemExit:
        exc = 'SystemExit'
    except BaseException as e:  # noqa
        exc = type(e).__name__
        try:
            # user-defined exception classes: report the class chain up to the builtin
            chain = [c.__name__ for c in type(e).__mro__ if c not in (object, BaseException)]
            detail = str(e)[:200].replace('\n', ' ')
            exc = exc + '|' + '>'.join(chain) + '|' + detail
        except Exception:
            pass
    try:
        sys.stdout.flush()
        os.write(1, ('\n\x00EXC:' + exc + '\n').encode('utf-8', 'backslashreplace'))
    finally:
        os._exit(0)


def run(src, modules=None, timeout=10.0, cap=1 << 20):
    """Execute module text. Returns dict(lines=[...], exc=None|class name, chain=[..], detail=str, status=...)."""
    rfd, wfd = os.pipe()
    sys.stdout.flush(); sys.stderr.flush()
    pid = os.fork()
    if pid == 0:
        os.close(rfd)
        try:
            _child(src, modules or {}, wfd)
        finally:
            os._exit(97)
    os.close(wfd)
    data = b''
    deadline = time.time() + timeout
    status = 'ok'
    while True:
        left = deadline - time.time()
        if left <= 0:
            status = 'timeout'
            break
        r, _, _ = select.select([rfd], [], [], left)
        if not r:
            status = 'timeout'
            break
        chunk = os.read(rfd, 1 << 16)
        if not chunk:
            break
        data += chunk
        if len(data) > cap:
            status = 'output-cap'
            break
    os.close(rfd)
    if status != 'ok':
        try:
            os.kill(pid, signal.SIGKILL)
        except Exception:
            pass
    _, st = os.waitpid(pid, 0)
    text = data.decode('utf-8', 'replace')
    exc = None; chain = []; detail = ''
    marker = '\n\x00EXC:'
    if marker in text:
        text, _, tail = text.rpartition(marker)
        tail = tail.strip('\n')
        if tail:
            parts = tail.split('|', 2)
            exc = parts[0]
            chain = parts[1].split('>') if len(parts) > 1 and parts[1] else [exc]
            detail = parts[2] if len(parts) > 2 else ''
    elif status == 'ok':
        status = 'killed' if os.WIFSIGNALED(st) else 'no-marker'
    lines = text.split('\n')
    if lines and lines[-1] == '':
        lines.pop()
    return dict(lines=lines, exc=exc, chain=chain, detail=detail, status=status)


INTROSPECT = r'''
import inspect, json
def _sig(f):
    out = []
    try:
        s = inspect.signature(f)
    except (TypeError, ValueError):
        return None
    for p in s.parameters.values():
        out.append([p.name, p.default is not inspect.Parameter.empty, {p.VAR_POSITIONAL: '*', p.VAR_KEYWORD: '**', p.KEYWORD_ONLY: 'kw'}.get(p.kind, ''),
                    repr(p.default) if p.default is not inspect.Parameter.empty else None])
    return out
_rep = {'functions': {}, 'classes': {}}
for _n, _v in list(_g.items()):
    if _n.startswith('__') or getattr(_v, '__module__', None) not in ('__main__', None):
        continue
    if inspect.isfunction(_v):
        _rep['functions'][_n] = _sig(_v)
    elif inspect.isclass(_v):
        _ms = {}
        for _mn, _mv in _v.__dict__.items():
            if inspect.isfunction(_mv):
                _ms[_mn] = _sig(_mv)
        _rep['classes'][_n] = {'bases': [b.__name__ for b in _v.__bases__], 'ctor': _sig(_v), 'methods': _ms, 'abstract': bool(getattr(_v, '__abstractmethods__', None)),
                               'attrs': sorted(k for k in _v.__dict__ if not k.startswith('__') and not inspect.isfunction(_v.__dict__[k]))}
'''


def introspect(src, calls=(), timeout=10.0):
    """Execute the module (output discarded), then report the signatures Python sees and the outcome of the
    requested calls. calls: list of python expression strings evaluated in the module's globals.
    Returns dict(report=..., calls=[(expr, 'ok'|ExcClass: msg)], exc=import-time exception or None)."""
    import json
    prog = (
        "import io, sys, json\n_g = {'__name__': '__main__'}\n_real = sys.stdout\nsys.stdout = io.StringIO()\n_exc = None\n"
        "try:\n    exec(compile(_SRC, 'out.py', 'exec'), _g)\nexcept BaseException as e:\n    _exc = type(e).__name__ + ': ' + str(e)[:200]\n"
        + INTROSPECT +
        "_calls = []\nfor _c in _CALLS:\n    try:\n        eval(_c, _g)\n        _calls.append([_c, 'ok'])\n    except BaseException as e:\n        _calls.append([_c, type(e).__name__ + ': ' + str(e)[:160]])\n"
        "sys.stdout = _real\nprint('\\x00REPORT:' + json.dumps({'report': _rep, 'calls': _calls, 'exc': _exc}))\n")
    full = f'_SRC = {src!r}\n_CALLS = {list(calls)!r}\n' + prog
    o = run(full, timeout=timeout)
    for l in o['lines']:
        if l.startswith('\x00REPORT:'):
            return json.loads(l[len('\x00REPORT:'):])
    return {'report': None, 'calls': [], 'exc': o['exc'] or o['status'], 'detail': o.get('detail')}
