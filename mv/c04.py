"""C04 — accepted programs do not go wrong: no TypeError / AttributeError / NameError / UnboundLocalError.

Oracle: CPython's exception class at top level of the emitted module. No model is needed for the verdict;
the typing sweeps only *aim* the workload: every single-point type-changing edit of the C05/C06/C07/C09 sweeps
and an operator x operand-type sweep, placed on an executed path. Whatever the pipeline accepts is executed."""
import json, os
from . import common, lang, gen, sweeps, vsweep, behave, pyrun
from .common import Partial, Report, Worker, rng, run_shards

PROP = 'C04'
GO_WRONG = ('TypeError', 'AttributeError', 'NameError', 'UnboundLocalError')

OPERAND_VALUES = {'Int': '3', 'Float': '2.5', 'Str': '"s"', 'Bool': 'True', 'Base': 'Base(1)', 'List': '[1, 2]', 'Tuple': '(1, 2)', 'None': 'None'}
BINOPS = ['+', '-', '*', '/', '//', 'mod', '^', '<', '<=', '>', '>=', '=', 'and', 'or']
UNOPS = ['-', '+', 'not ', 'sqrt ']
AUGOPS = ['+=', '-=', '*=', '/=', '^=', '<<=', '>>=']


def operand_cells():
    """operator x operand types on either side; variables (annotated) so that the checker sees declared types."""
    out = []
    pre = 'class Base(def bx: Int)\n    def get(self) -> Int => self.bx\n\n'
    tys = list(OPERAND_VALUES)
    decl = {'Int': 'Int', 'Float': 'Float', 'Str': 'Str', 'Bool': 'Bool', 'Base': 'Base', 'List': 'List[Int]', 'Tuple': '(Int, Int)', 'None': 'Int?'}
    for op in BINOPS:
        for a in tys:
            for b in tys:
                for form in ('literals', 'variables'):
                    if form == 'literals':
                        body = f'def r := {OPERAND_VALUES[a]} {op} {OPERAND_VALUES[b]}\nprint("done")\n'
                    else:
                        body = f'def va: {decl[a]} := {OPERAND_VALUES[a]}\ndef vb: {decl[b]} := {OPERAND_VALUES[b]}\ndef r := va {op} vb\nprint("done")\n'
                    for ctx in ('top', 'fun'):
                        src = pre + (body if ctx == 'top' else 'def wrapf() -> Int =>\n' + ''.join('    ' + l + '\n' for l in body.strip().split('\n')) + '    0\nprint(wrapf())\n')
                        out.append((f'binop:{a}{op}{b}:{form}@{ctx}', f'binop:{op}:{a}:{b}', src))
    for op in UNOPS:
        for a in tys:
            for form in ('literals', 'variables'):
                body = (f'def r := {op}{OPERAND_VALUES[a]}\nprint("done")\n' if form == 'literals'
                        else f'def va: {decl[a]} := {OPERAND_VALUES[a]}\ndef r := {op}va\nprint("done")\n')
                out.append((f'unop:{op.strip()}{a}:{form}', f'unop:{op.strip()}:{a}', pre + body))
    # augmented assignment: receiver type x operand type, on a variable and on a field through self
    for op in AUGOPS:
        for a in tys:
            for b in tys:
                body = f'def va: {decl[a]} := {OPERAND_VALUES[a]}\ndef vb: {decl[b]} := {OPERAND_VALUES[b]}\nva {op} vb\nprint("done")\n'
                # the shifts put no constraint on either operand (one listed finding per operator); the other operators are judged per type pair
                g = f'augop:{op}' if op in ('<<=', '>>=') else f'augop:{op}:{a}:{b}'
                out.append((f'augop:{a}{op}{b}:variable@top', g, pre + body))
                out.append((f'augop:{a}{op}{b}:variable@fun', g,
                            pre + 'def wrapf() -> Int =>\n' + ''.join('    ' + l + '\n' for l in body.strip().split('\n')) + '    0\nprint(wrapf())\n'))
                out.append((f'augop:{a}{op}{b}:field@method', g,
                            pre + f'class AugBox(def fa: {decl[a]})\n    def bump(self, vb: {decl[b]}) -> Int =>\n        self.fa {op} vb\n        0\n\n'
                            f'def ab := AugBox({OPERAND_VALUES[a]})\nprint(ab.bump({OPERAND_VALUES[b]}))\n'))
    # operations on collections x collection (and non-collection) types: the property names lists, sets and tuples explicitly
    COLL = {'List': ('List[Int]', '[1, 2, 3]'), 'Set': ('Set[Int]', '{1, 2, 3}'), 'Tuple': ('(Int, Int)', '(1, 2)'), 'Dict': (None, '{1 => 2, 3 => 4}'), 'Str': ('Str', '"abc"'),
            'Range': (None, '(0 .. 3)'), 'Int': ('Int', '7'), 'ListStr': ('List[Str]', '["a", "b"]'), 'Nested': ('List[List[Int]]', '[[1], [2, 3]]'), 'Empty': ('List[Int]', '[]')}
    COLLOPS = {
        'index': 'print(c[0])', 'index-negative': 'print(c[0 - 1])', 'index-str': 'print(c["k"])', 'index-assign': 'c[0] := 9', 'contains': 'print(1 in c)', 'contains-str': 'print("a" in c)',
        'concat': 'def d := c + c\nprint("x")', 'repeat': 'def d := c * 2\nprint("x")', 'iterate': 'for e in c do print(e)', 'iterate-sub': 'for e in c do print(e - 1)',
        'append': 'c.append(4)', 'add': 'c.add(4)', 'push-nonexistent': 'c.push(4)', 'builder': 'def d := [e | e in c]\nprint("x")', 'builder-arith': 'def d := [e * 2 | e in c]\nprint("x")',
        'set-builder-cond': 'def d := {e | e in c, e > 1}\nprint("x")', 'slice': 'def d := c[0 :: 2]\nprint("x")', 'unpack-2': 'def (p, q) := c\nprint("x")', 'unpack-3': 'def (p, q, r) := c\nprint("x")',
        'equal': 'print(c = c)', 'less': 'print(c < c)', 'print': 'print(c)', 'interpolate': 'print("{c}")', 'index-of-index': 'print(c[0][0])', 'sum-elements': 'def t: Int := c[0] + c[1]\nprint(t)',
        'element-into-int': 'def t: Int := c[0]\nprint(t)', 'element-into-str': 'def t: Str := c[0]\nprint(t)', 'call-as-function': 'print(c(0))',
        'plus-int': 'def d := c + 1\nprint("x")', 'field': 'print(c.first)', 'sqrt': 'def d: Float := sqrt c\nprint(d)',
    }
    for cn, (ann, val) in COLL.items():
        for on, op in COLLOPS.items():
            if (on, cn) == ('plus-int', 'Str'):
                continue        # `"s" + 1` is the Str stub finding of the binary operator sweep
            for form in ('inferred', 'annotated'):
                if form == 'annotated' and ann is None:
                    continue
                body = (f'def c: {ann} := {val}' if form == 'annotated' else f'def c := {val}') + '\n' + op + '\nprint("done")\n'
                out.append((f'collop:{cn}:{on}:{form}@top', f'collop:{on}:{cn}', pre + body))
                out.append((f'collop:{cn}:{on}:{form}@fun', f'collop:{on}:{cn}',
                            pre + 'def wrapf() -> Int =>\n' + ''.join('    ' + l + '\n' for l in body.strip().split('\n')) + '    0\nprint(wrapf())\n'))
    # method / field on the wrong class, renamed uses
    extra = {
        'method-of-other-class': 'class Other(def oz: Str)\n    def name(self) -> Str => self.oz\ndef b := Base(1)\nprint(b.name())\n',
        'field-of-other-class': 'class Other(def oz: Str)\ndef b := Base(1)\nprint(b.oz)\n',
        'method-on-int': 'def i := 3\nprint(i.get())\n',
        'field-on-str': 'def s := "x"\nprint(s.bx)\n',
        'call-non-function': 'def i := 3\nprint(i(1))\n',
        'index-non-collection': 'def i := 3\nprint(i[0])\n',
        'renamed-function': 'def fi(a: Int) -> Int => a\nprint(fii(1))\n',
        'renamed-variable': 'def value := 3\nprint(valeu)\n',
        'renamed-field': 'def b := Base(1)\nprint(b.bxx)\n',
        'renamed-method': 'def b := Base(1)\nprint(b.gett())\n',
        'renamed-class': 'def b := Basee(1)\nprint("x")\n',
        'def-arg-forwarded-to-parent-under-other-name': 'class Child(def nm: Int, def tag: Int): Base(tag)\n    def show(self) -> Int => self.tag\ndef c := Child(1, 2)\nprint(c.show())\n',
        'for-over-int': 'for i in 3 do print(i)\n',
        'str-times-str': 'def s := "a" * "b"\nprint(s)\n',
        'tuple-unpack-arity': 'def (a, b) := (1, 2, 3)\nprint(a)\n',
        'call-with-keyword-like-misuse': 'def fi(a: Int, b: Str) -> Int => a\nprint(fi("s", 1))\n',
        'none-method': 'def n: Base? := None\nprint(n.get())\n',
        'global-reassigned-in-function': 'def total := 0\ndef addt(k: Int) -> Int =>\n    total := total + k\n    total\nprint(addt(1))\n',
        'global-augmented-in-function': 'def total := 0\ndef addt(k: Int) -> Int =>\n    total += k\n    total\nprint(addt(1))\n',
        'global-read-in-function': 'def total := 5\ndef addt(k: Int) -> Int => total + k\nprint(addt(1))\n',
        'override-with-other-return-type': 'class Ov(v: Int): Base(v)\n    def get(self) -> Str => "s"\ndef takes(b: Base) -> Int => b.get() + 1\nprint(takes(Ov(1)))\n',
        'override-with-other-parameter-type': 'class Pa\n    def put(self, a: Int) -> Int => a + 1\nclass Ov2: Pa\n    def put(self, a: Str) -> Int => 1\ndef takes(b: Pa) -> Int => b.put(1)\nprint(takes(Ov2()))\n',
        'field-redeclared-with-other-type': 'class Fo(v: Int): Base(v)\n    def bx: Str := "s"\ndef takes(b: Base) -> Int => b.bx + 1\nprint(takes(Fo(1)))\n',
    }
    for k, v in extra.items():
        out.append((f'misc:{k}', f'misc:{k}', pre + v))
    return out


def judge(w, cid, gid, src, part, origin):
    res = w.pipe(src, annotate=False)
    k = res.get('k')
    if k == 'err':
        part.count('rejected'); part.evaluations += 1
        return
    if k != 'ok':
        part.inconc('pipeline-' + str(k)); return
    part.count('accepted')
    lines, exc, o = behave.observe(res['py'][0])
    if o['status'] != 'ok':
        part.inconc('python-' + o['status']); return
    part.count('executed')
    if exc:
        part.count('exception:' + (exc if exc in GO_WRONG or exc in lang.BUILTIN_EXC else 'other'))
    if exc in GO_WRONG:
        res2 = w.pipe(src, annotate=False)
        if res2.get('k') != 'ok':
            part.inconc('nondeterministic-verdict'); return
        part.violation(f'{exc}:{gid}', {'kind': 'program', 'origin': origin, 'cell': cid, 'mamba': src, 'python': res['py'][0][:3000], 'exception': exc, 'detail': o['detail']})
    else:
        part.held((origin, gid.split(':')[0], exc or 'ok'))
        if part.evaluations % 300 == 1:
            part.sample({'origin': origin, 'cell': cid, 'accepted': True, 'ended_with': exc or 'normal exit', 'mamba_tail': src[-220:]})


def shard(i, n, nrandom, stride):
    w = Worker(watchdog=60); part = Partial()
    k = 0
    for cid, gid, src in operand_cells():
        k += 1
        if k % n == i:
            judge(w, cid, gid, src, part, 'operand-sweep')
            part.count('operand-cells')
    for name, cells in (('C05', vsweep.c05_cells()), ('C06', vsweep.c06_cells()), ('C07', vsweep.c07_cells()), ('C09', vsweep.c09_cells())):
        for kk, (cid, gid, src, must, meta) in enumerate(cells):
            k += 1
            if k % n != i:
                continue
            # the violating edits are the interesting ones; conforming cells are sampled
            if must and kk % (stride * 4) != 0:
                continue
            # collapse the context out of the group: one defect, one signature
            g = f"{name}:{gid.rsplit(':', 1)[0]}"
            # a name defined again in a nested block / loop body: one scoping defect, whatever the use site and the sweep it comes from
            if '+inner-' in cid or '+loop-' in cid or 'reuse-inner-' in gid:
                g = 'scoping:redefinition-in-nested-block'
            judge(w, cid, g, src, part, f'{name}-edit')
            part.count('typing-edit-cells')
    for kk, (cell, prog) in enumerate(sweeps.cells()):
        k += 1
        if k % n == i and kk % (stride * 2) == 0:
            judge(w, cell, 'sweep:' + cell.split('@')[0], lang.to_mamba(prog), part, 'well-typed-sweep')
    for j in range(nrandom):
        k += 1
        if k % n == i:
            r = rng(PROP, 'random', j)
            prog, _ = gen.generate(r)
            judge(w, f'random:{j}', 'random', lang.to_mamba(prog), part, 'well-typed-random')
    w.close()
    return part.dump()


def selftest():
    """The observer must see each of the four classes."""
    for code, cls in (('1 + "a"', 'TypeError'), ('None.x', 'AttributeError'), ('undefined_name', 'NameError'),
                      ('def f():\n    print(x)\n    x = 1\nf()', 'UnboundLocalError')):
        o = pyrun.run(code + '\n')
        assert o['exc'] == cls, (code, o)


def replay_entries(rep):
    rep.known_live = {}
    w = Worker(watchdog=60)
    for sig, (wit, _) in rep.known.known.items():
        obj = json.load(open(os.path.join(common.ROOT, wit)))
        part = Partial()
        judge(w, obj.get('cell', 'finding'), sig.split(':', 1)[1], obj['mamba'], part, 'finding')
        rep.known_live[sig] = sig in part.violations
        for s, (wt, c) in part.violations.items():
            rep.violation(s, wt)
    w.close()


def main(tier):
    common.build()
    selftest()
    rep = Report(PROP, tier, 'exploration')
    rep.rule = ('one evaluation = one program offered to the real pipeline; if accepted, the emitted module is executed and must not end with TypeError, AttributeError, NameError or '
                'UnboundLocalError; workload: operator x operand-type sweep (14 binary, 4 unary operators x 8 operand types, literals and declared variables, top level and function), '
                'misuse cells (member of another class, renamed uses, non-callable, ...), the single-point type-changing edits of the C05/C06/C07/C09 sweeps on executed paths, and '
                'well-typed sweep/random programs; distinct = distinct (origin, group kind, how the run ended)')
    rep.assumptions = ['every edit stands on an executed path (the context wrappers call the function / take the branch)', 'exceptions other than the four classes (ZeroDivisionError, user classes, ...) are fine here']
    replay_entries(rep)
    nrandom, stride = (120, 3) if tier == 'quick' else (1500, 1)
    for d in run_shards(shard, (nrandom, stride)):
        rep.merge(d)
    floors = [('>= 1200 accepted programs executed', rep.cov.get('executed', 0) >= 1200), ('>= 300 accepted type-changing / operand cells executed', rep.cov.get('accepted', 0) >= 300),
              ('operand sweep complete', rep.cov.get('operand-cells', 0) == len(operand_cells()))]
    return rep.finish(floors)


def replay(path):
    common.build()
    obj = json.load(open(path))['witness']
    w = Worker(watchdog=60); part = Partial()
    judge(w, obj.get('cell'), 'replay', obj['mamba'], part, 'replay')
    w.close()
    if part.violations:
        print(f'VIOLATION property={PROP} replay={path}')
        return 1
    print('replay: held')
    return 0
