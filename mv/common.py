"""Shared plumbing for the runtime monitors: build, worker processes, sharding, PRNG, verdicts,
known findings, replay files and evidence."""
import binascii, hashlib, json, multiprocessing, os, random, select, signal, subprocess, sys, time, traceback

ROOT = os.path.dirname(os.path.dirname(os.path.abspath(__file__)))
REPO = '/repo'
TARGET = os.path.join(ROOT, 'target')
DEV_EXE = os.environ.get('MV_DEV_EXE')
MVH = DEV_EXE or os.path.join(TARGET, 'release', 'mvh')
MVH_PLAIN = os.path.join(TARGET, 'plain', 'mvh')
CLI = os.path.join(TARGET, 'cli', 'release', 'mamba')
NCPU = min(16, os.cpu_count() or 4)
SEED = int(os.environ.get('VERIF_SEED', '0') or 0)

ENV = dict(os.environ, CARGO_NET_OFFLINE='true', CARGO_TARGET_DIR=TARGET, RUST_BACKTRACE='0')


def log(*a):
    print(*a, file=sys.stderr, flush=True)


# ------------------------------------------------------------------------------------------ build
def build(plain=False, cli=False):
    """(Re)build the harness against /repo's current working tree. No-op when nothing changed."""
    t0 = time.time()
    if DEV_EXE:     # development aid only (never set by a registered command): a harness built elsewhere, e.g. against a scratch worktree
        log('MV_DEV_EXE set: not building, using ' + DEV_EXE)
        return 0.0
    cmds = [(['cargo', 'build', '--release', '--offline'], os.path.join(ROOT, 'harness'), ENV)]
    if plain:
        cmds.append((['cargo', 'build', '--profile', 'plain', '--offline'], os.path.join(ROOT, 'harness'), ENV))
    if cli:
        env = dict(ENV, CARGO_TARGET_DIR=os.path.join(TARGET, 'cli'))
        cmds.append((['cargo', 'build', '--release', '--offline', '--bin', 'mamba'], REPO, env))
    for cmd, cwd, env in cmds:
        p = subprocess.run(cmd, cwd=cwd, env=env, stdout=subprocess.PIPE, stderr=subprocess.STDOUT, text=True)
        if p.returncode != 0:
            log(p.stdout[-4000:])
            raise Inconclusive('build failed: ' + ' '.join(cmd))
    return time.time() - t0


class Inconclusive(Exception):
    pass


# ------------------------------------------------------------------------------------------ prng
def rng(*key):
    """Counter-based PRNG: independent stream per key, derived from VERIF_SEED."""
    h = hashlib.blake2b(repr((SEED,) + key).encode(), digest_size=8).digest()
    return random.Random(int.from_bytes(h, 'big'))


def hx(s):
    if isinstance(s, str):
        s = s.encode('utf-8', 'surrogatepass')
    return binascii.hexlify(s).decode()


# ------------------------------------------------------------------------------------------ worker
class Worker:
    """One `mvh serve` process. One request in flight; death/timeouts are attributed exactly."""

    def __init__(self, exe=None, watchdog=20.0):
        self.exe = exe or MVH
        self.watchdog = watchdog
        self.p = None
        self.deaths = 0
        self.start()

    def start(self):
        self.p = subprocess.Popen([self.exe, 'serve'], stdin=subprocess.PIPE, stdout=subprocess.PIPE,
                                  stderr=subprocess.DEVNULL, bufsize=0)
        self.buf = b''

    def close(self):
        try:
            self.p.stdin.close()
            self.p.kill()
            self.p.wait()
        except Exception:
            pass

    def _readline(self, timeout):
        fd = self.p.stdout.fileno()
        deadline = time.time() + timeout
        while b'\n' not in self.buf:
            left = deadline - time.time()
            if left <= 0:
                return None
            r, _, _ = select.select([fd], [], [], left)
            if not r:
                return None
            chunk = os.read(fd, 1 << 20)
            if not chunk:
                return b''
            self.buf += chunk
        line, _, self.buf = self.buf.partition(b'\n')
        return line

    def req(self, line, timeout=None):
        try:
            self.p.stdin.write(line.encode() + b'\n')
        except (BrokenPipeError, OSError):
            self.close(); self.start()
            self.p.stdin.write(line.encode() + b'\n')
        out = self._readline(timeout or self.watchdog)
        if out is None:
            self.close(); self.start()
            return {'k': 'timeout'}
        if out == b'':
            rc = self.p.wait()
            self.deaths += 1
            self.start()
            return {'k': 'dead', 'rc': rc, 'signal': (signal.Signals(-rc).name if rc < 0 else None)}
        try:
            return json.loads(out.decode('utf-8', 'replace'))
        except Exception as e:
            return {'k': 'garbled', 'raw': out[:200].decode('utf-8', 'replace'), 'e': str(e)}

    # ---- operations
    @staticmethod
    def _files(files):
        out = []
        for path, src in files:
            out.append('-' if path is None else hx(path))
            out.append(hx(src))
        return out

    def pipe(self, files, annotate=True, budget=0, srcdir='', timeout=None):
        """files: list of (path or None, source). Runs the real mamba_to_python."""
        if isinstance(files, str):
            files = [('in.mamba', files)]
        f = ['pipe', '1' if annotate else '0', str(budget), hx(srcdir)] + self._files(files)
        return self.req('\t'.join(f), timeout)

    def stages(self, files, annotate=True):
        if isinstance(files, str):
            files = [('in.mamba', files)]
        return self.req('\t'.join(['stages', '1' if annotate else '0'] + self._files(files)))

    def lex(self, src, budget=0):
        return self.req('lex\t' + hx(src) + (f'\t{budget}' if budget else ''))

    def repeat(self, files, annotate=True, k=8, t=0, pollute=()):
        if isinstance(files, str):
            files = [('in.mamba', files)]
        pol = [(None, s) for s in pollute]
        f = ['repeat', '1' if annotate else '0', str(k), str(t), str(len(pol))] + self._files(pol) + self._files(files)
        return self.req('\t'.join(f), timeout=120)

    def dir(self, d, src=None, target=None, annotate=True):
        f = ['dir', '1' if annotate else '0', hx(d), '-' if src is None else hx(src), '-' if target is None else hx(target)]
        return self.req('\t'.join(f))

    def lattice(self, src, lo, hi, types):
        f = ['lattice', hx(src), hx(str(lo)), hx(str(hi))] + [hx(t) for t in types]
        return self.req('\t'.join(f), timeout=600)


# ------------------------------------------------------------------------------------------ sharding
def _shard_entry(args):
    fn, i, n, extra = args
    try:
        return ('ok', fn(i, n, *extra))
    except Inconclusive as e:
        return ('inconclusive', str(e))
    except Exception:
        return ('crash', traceback.format_exc())


def run_shards(fn, extra=(), n=None):
    """Run fn(shard_index, nshards, *extra) in n forked processes; returns the list of results.
    A crashing shard is a harness error => Inconclusive (never a violation)."""
    n = n or NCPU
    if n == 1:
        res = [_shard_entry((fn, 0, 1, extra))]
    else:
        ctx = multiprocessing.get_context('fork')
        with ctx.Pool(n) as pool:
            res = pool.map(_shard_entry, [(fn, i, n, extra) for i in range(n)], chunksize=1)
    out = []
    for kind, val in res:
        if kind == 'ok':
            out.append(val)
        elif kind == 'inconclusive':
            raise Inconclusive(val)
        else:
            log(val)
            raise Inconclusive('harness shard crashed: ' + val.strip().splitlines()[-1])
    return out


# ------------------------------------------------------------------------------------------ findings
class Known:
    """KNOWN_FINDINGS.txt: `known: property=<id> sig=<sig> witness=<path> what=<text>` and
    `fixed: property=<id> <commit> <what> witness=<path>`. Never written at run time."""

    def __init__(self, prop):
        self.prop = prop
        self.known = {}   # sig -> (witness, what)
        self.fixed = []   # (commit, what, witness)
        path = os.path.join(ROOT, 'KNOWN_FINDINGS.txt')
        if not os.path.exists(path):
            return
        for line in open(path, encoding='utf-8'):
            line = line.rstrip('\n')
            if line.startswith('known: property=%s ' % prop):
                rest = line.split(' ', 2)[2]
                sig = _field(rest, 'sig=', ' witness=')
                wit = _field(rest, ' witness=', ' what=')
                what = rest.split(' what=', 1)[1] if ' what=' in rest else ''
                self.known[sig] = (wit, what)
            elif line.startswith('fixed: property=%s ' % prop):
                rest = line.split(' ', 2)[2]
                commit, _, tail = rest.partition(' ')
                wit = tail.rsplit(' witness=', 1)[1] if ' witness=' in tail else None
                self.fixed.append((commit, tail.rsplit(' witness=', 1)[0], wit))


def _field(s, a, b):
    i = s.find(a)
    if i < 0:
        return ''
    i += len(a)
    j = s.find(b, i)
    return s[i:] if j < 0 else s[i:j]


class Report:
    """Collects verdicts of one check run and turns them into exit status, VIOLATION /
    KNOWN-FINDING lines, replay files and the evidence file."""

    def __init__(self, prop, tier, level):
        self.prop, self.tier, self.level = prop, tier, level
        self.t0 = time.time()
        self.known = Known(prop)
        self.violations = {}      # sig -> witness dict (first seen)
        self.viol_counts = {}
        self.known_hits = {}      # sig -> count
        self.inconclusive = {}    # reason -> count
        self.evaluations = 0
        self.distinct = set()
        self.samples = []
        self.cov = {}
        self.assumptions = []
        self.rule = ''
        self.notes = []

    def held(self, key=None, n=1):
        self.evaluations += n
        if key is not None:
            self.distinct.add(key)

    def inconc(self, reason, n=1):
        self.evaluations += n
        self.inconclusive[reason] = self.inconclusive.get(reason, 0) + n

    def violation(self, sig, witness):
        """sig: narrow signature string; witness: JSON-able dict with everything needed to replay."""
        self.evaluations += 1
        if sig in self.known.known:
            self.known_hits[sig] = self.known_hits.get(sig, 0) + 1
            return
        self.viol_counts[sig] = self.viol_counts.get(sig, 0) + 1
        if sig not in self.violations:
            self.violations[sig] = witness

    def sample(self, s, cap=6):
        if len(self.samples) < cap:
            self.samples.append(s)

    def count(self, key, n=1):
        self.cov[key] = self.cov.get(key, 0) + n

    def merge(self, other):
        """Merge a partial (from a shard): dict produced by Partial.dump()."""
        self.evaluations += other['evaluations']
        self.distinct.update(other['distinct'])
        for s in other['samples']:
            self.sample(s)
        for k, v in other['cov'].items():
            self.count(k, v)
        for k, v in other['inconclusive'].items():
            self.inconclusive[k] = self.inconclusive.get(k, 0) + v
        for sig, wit, n in other['violations']:
            if sig in self.known.known:
                self.known_hits[sig] = self.known_hits.get(sig, 0) + n
            else:
                self.viol_counts[sig] = self.viol_counts.get(sig, 0) + n
                self.violations.setdefault(sig, wit)

    def finish(self, floors=(), extra_cov=None, exhaustive=None):
        """floors: list of (description, bool ok). Returns the exit status."""
        wall = time.time() - self.t0
        status = 0
        # known findings: one line each (replayed by the check before calling finish => known_live)
        for sig, (wit, what) in sorted(self.known.known.items()):
            live = getattr(self, 'known_live', {}).get(sig)
            if live is False:
                log(f'note: known finding no longer reproduces: property={self.prop} sig={sig}')
            else:
                print(f'KNOWN-FINDING: property={self.prop} {what} [sig={sig}]')
        os.makedirs(os.path.join(ROOT, 'replay', self.prop), exist_ok=True)
        for sig, wit in sorted(self.violations.items()):
            h = hashlib.sha1(sig.encode()).hexdigest()[:12]
            path = os.path.join(ROOT, 'replay', self.prop, h + '.json')
            with open(path, 'w', encoding='utf-8') as f:
                json.dump({'property': self.prop, 'sig': sig, 'count': self.viol_counts.get(sig, 1), 'seed': SEED,
                           'tier': self.tier, 'witness': wit}, f, indent=1, ensure_ascii=False, default=str)
            print(f'VIOLATION property={self.prop} replay={path}')
            log(f'  sig: {sig}  (x{self.viol_counts.get(sig, 1)})')
            status = 1
        failed_floors = [d for d, ok in floors if not ok]
        ninc = sum(self.inconclusive.values())
        if status == 0:
            if failed_floors:
                print(f'INCONCLUSIVE property={self.prop} reason=floor-not-met: ' + '; '.join(failed_floors))
                status = 3
            elif self.evaluations and ninc > 0.02 * self.evaluations + 5:
                print(f'INCONCLUSIVE property={self.prop} reason=too-many-inconclusive {self.inconclusive}')
                status = 3
        cov = dict(evaluations=self.evaluations, distinct_nontrivial=len(self.distinct), rule=self.rule,
                   samples=self.samples[:8], counts=self.cov, inconclusive=self.inconclusive,
                   known_findings_suppressed=self.known_hits, floors=[{'floor': d, 'met': ok} for d, ok in floors],
                   violation_signatures=sorted(self.violations), notes=self.notes)
        if exhaustive is not None:
            cov['exhaustive'] = exhaustive
        if self.level == 'translation_validation':
            cov['programs'] = extra_cov.pop('programs', self.evaluations) if extra_cov else self.evaluations
            cov['disagreements_checked'] = (extra_cov.pop('disagreements_checked', 0) if extra_cov else 0)
        if extra_cov:
            cov.update(extra_cov)
        ev = dict(property_id=self.prop, tier=self.tier, seed=SEED, level=self.level, coverage=cov,
                  assumptions=self.assumptions, wall_s=round(wall, 2), violations=len(self.violations))
        os.makedirs(os.path.join(ROOT, 'evidence'), exist_ok=True)
        with open(os.path.join(ROOT, 'evidence', self.prop + '.json'), 'w', encoding='utf-8') as f:
            json.dump(ev, f, indent=1, ensure_ascii=False, default=str)
        log(f'{self.prop} {self.tier}: evaluations={self.evaluations} distinct={len(self.distinct)} '
            f'violations={len(self.violations)} known_suppressed={sum(self.known_hits.values())} '
            f'inconclusive={ninc} wall={wall:.1f}s status={status}')
        return status


class Partial:
    """What a shard accumulates; merged into the Report by the parent."""

    def __init__(self):
        self.evaluations = 0
        self.distinct = set()
        self.samples = []
        self.cov = {}
        self.inconclusive = {}
        self.violations = {}  # sig -> [witness, count]

    def held(self, key=None, n=1):
        self.evaluations += n
        if key is not None:
            self.distinct.add(key)

    def inconc(self, reason, n=1):
        self.evaluations += n
        self.inconclusive[reason] = self.inconclusive.get(reason, 0) + n

    def violation(self, sig, witness):
        self.evaluations += 1
        if sig in self.violations:
            self.violations[sig][1] += 1
        else:
            self.violations[sig] = [witness, 1]

    def sample(self, s, cap=3):
        if len(self.samples) < cap:
            self.samples.append(s)

    def count(self, key, n=1):
        self.cov[key] = self.cov.get(key, 0) + n

    def dump(self):
        return dict(evaluations=self.evaluations, distinct=self.distinct, samples=self.samples, cov=self.cov,
                    inconclusive=self.inconclusive,
                    violations=[(s, w, n) for s, (w, n) in self.violations.items()])


def tier_from_env(argv_tier=None):
    t = argv_tier or os.environ.get('VERIF_TIER') or 'quick'
    return 'thorough' if t.startswith('t') else 'quick'


# ------------------------------------------------------------------------------------------ samples
def repo_samples(kind='valid'):
    """Repository sample programs: list of (relative path, text). kind: valid | invalid | all."""
    base = os.path.join(REPO, 'tests', 'resource')
    out = []
    for root, _, files in os.walk(base):
        for f in sorted(files):
            if not f.endswith('.mamba'):
                continue
            p = os.path.join(root, f)
            rel = os.path.relpath(p, base)
            k = rel.split(os.sep)[0]
            if kind != 'all' and k != kind:
                continue
            try:
                out.append((rel, open(p, encoding='utf-8').read()))
            except Exception:
                pass
    out.sort()
    return out
