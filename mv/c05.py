"""C05 — declared signatures are enforced: conforming uses pass, others are rejected.
Systematic single-fault sweep: use-site x filler type/form x context, arity cells, return cells."""
from . import vsweep, verdict

PROP = 'C05'


def cells():
    return vsweep.c05_cells()


def main(tier):
    return verdict.run(PROP, tier, cells(), 'exploration',
                       rule=('one evaluation = one sweep cell: a small program with exactly one typed use (call, method call, constructor, annotated local, '
                             'reassignment, field assignment, return) whose hole is filled by an expression of a chosen type, placed in one of the contexts; the '
                             'reference discipline (Int <: Float <: Complex, class inheritance, Any) says accept or reject; distinct = distinct (group, demanded verdict); '
                             'non-trivial = the pipeline returned a verdict'),
                       assumptions=['subtyping limited to Int <: Float <: Complex, class inheritance and Any (as the property states); Bool is not a subtype of Int',
                                    'every cell differs from an accepted program by at most one use'])


def replay(path):
    return verdict.replay(PROP, path, cells)
