"""C10 — printed expressions keep their structure.

Core level: `mvh core` enumerates Core expression trees (public type), prints each with the real
`Display for Core`; CPython parses the text; the resulting AST must be the tree the Core value denotes.
End to end: typed Mamba expressions (fully parenthesised, and with the minimal parentheses the Mamba
grammar needs) go through the whole pipeline; the Python AST of the emitted initialiser must be the tree."""
import ast, json, os, re, subprocess, sys
from . import common
from .common import Partial, Report, Worker, rng, run_shards

PROP = 'C10'
L = ast.Load()


# ------------------------------------------------------------------------------------- descriptors
def parse_sexp(s):
    toks = re.findall(r'\(|\)|[^\s()]+', s); pos = 0

    def rd():
        nonlocal pos
        t = toks[pos]; pos += 1
        if t == '(':
            l = []
            while toks[pos] != ')':
                l.append(rd())
            pos += 1
            return l
        return t
    return rd()


BINOP = {'Add': ast.Add, 'Sub': ast.Sub, 'Mul': ast.Mult, 'Div': ast.Div, 'FDiv': ast.FloorDiv, 'Mod': ast.Mod, 'Pow': ast.Pow,
         'BAnd': ast.BitAnd, 'BOr': ast.BitOr, 'BXOr': ast.BitXor, 'BLShift': ast.LShift, 'BRShift': ast.RShift}
CMP = {'Ge': ast.Gt, 'Geq': ast.GtE, 'Le': ast.Lt, 'Leq': ast.LtE, 'Eq': ast.Eq, 'Neq': ast.NotEq, 'Is': ast.Is, 'IsN': ast.IsNot,
       'In': ast.In}
UN = {'Not': ast.Not, 'AddU': ast.UAdd, 'SubU': ast.USub, 'BOneCmpl': ast.Invert}


def name(n):
    return ast.Name(id=n, ctx=L)


def noargs(params=()):
    return ast.arguments(posonlyargs=[], args=[ast.arg(arg=p) for p in params], kwonlyargs=[], kw_defaults=[], defaults=[])


def exp(t):
    """The Python AST that a descriptor denotes."""
    h = t[0]
    if h == 'Id': return name(t[1])
    if h == 'Int': return ast.Constant(value=int(t[1]))
    if h == 'Float': return ast.Constant(value=float(t[1]))
    if h == 'Bool': return ast.Constant(value=(t[1] == 'True'))
    if h == 'ENum':
        return ast.BinOp(left=ast.Constant(value=int(t[1])), op=ast.Mult(),
                         right=ast.BinOp(left=ast.Constant(value=10), op=ast.Pow(), right=ast.Constant(value=int(t[2]))))
    if h in BINOP: return ast.BinOp(left=exp(t[1]), op=BINOP[h](), right=exp(t[2]))
    if h in CMP: return ast.Compare(left=exp(t[1]), ops=[CMP[h]()], comparators=[exp(t[2])])
    if h in ('And', 'Or'):
        return ast.BoolOp(op=(ast.And if h == 'And' else ast.Or)(), values=[exp(t[1]), exp(t[2])])
    if h in UN: return ast.UnaryOp(op=UN[h](), operand=exp(t[1]))
    if h == 'Sqrt': return ast.Call(func=ast.Attribute(value=name('math'), attr='sqrt', ctx=L), args=[exp(t[1])], keywords=[])
    if h == 'Attr': return ast.Attribute(value=exp(t[1]), attr=t[2], ctx=L)
    if h == 'Call': return ast.Call(func=exp(t[1]), args=[], keywords=[])
    if h == 'Call1': return ast.Call(func=name(t[1]), args=[exp(t[2])], keywords=[])
    if h == 'Lambda': return ast.Lambda(args=noargs(), body=exp(t[1]))
    if h == 'Lambda1': return ast.Lambda(args=noargs(['p']), body=exp(t[1]))
    if h == 'Index': return ast.Subscript(value=exp(t[1]), slice=exp(t[2]), ctx=L)
    if h == 'IsA': return ast.Call(func=name('isinstance'), args=[exp(t[1]), exp(t[2])], keywords=[])
    if h == 'Ternary': return ast.IfExp(test=exp(t[1]), body=exp(t[2]), orelse=exp(t[3]))
    raise Exception('unknown descriptor head ' + h)


class Flat(ast.NodeTransformer):
    """CPython flattens `a and b and c`; a BoolOp whose FIRST value is a BoolOp of the same operator is
    indistinguishable from the flat form, so both sides are normalised that way (semantically equal)."""

    def visit_BoolOp(self, n):
        self.generic_visit(n)
        first = n.values[0]
        if isinstance(first, ast.BoolOp) and type(first.op) == type(n.op):
            return ast.BoolOp(op=n.op, values=first.values + n.values[1:])
        return n

    def visit_Constant(self, n):
        return n


def norm(e):
    return ast.dump(Flat().visit(e))


def cell_of(t, got_syntax):
    """Signature cell = (parent operator, operator kinds of the children)."""
    kids = [k[0] if isinstance(k, list) else '.' for k in t[1:]]
    leaf = {'Id', 'Int', 'ENum', 'Float', 'Bool'}
    kids = ['leaf' if k in leaf else k for k in kids]
    return f"{'syntax' if got_syntax else 'struct'}:{t[0]}({','.join(kids)})"


def find_divergence(t, txt):
    """Smallest sub-descriptor that is itself misprinted is not available (we only have the text of the
    root), so the cell is the root's; for depth-3 trees re-evaluate the children cells are part of the same
    enumeration and get their own verdicts."""
    return t


def judge(desc, txt):
    t = parse_sexp(desc)
    want = norm(exp(t))
    try:
        got = norm(ast.parse(txt, mode='eval').body)
    except SyntaxError:
        return cell_of(t, True), t
    except (ValueError, RecursionError, MemoryError) as e:
        return 'parser-' + type(e).__name__, t
    if got != want:
        return cell_of(t, False), t
    return None, t


def shard_lines(i, n, path):
    part = Partial()
    with open(path, encoding='utf-8') as f:
        for k, line in enumerate(f):
            if k % n != i:
                continue
            desc, _, txt = line.rstrip('\n').partition('\t')
            txt = txt.replace('\\n', '\n')
            sig, t = judge(desc, txt)
            if sig:
                part.violation(sig, {'kind': 'core', 'desc': desc, 'printed': txt})
            else:
                kids = tuple(k[0] if isinstance(k, list) else '.' for k in t[1:])
                part.held((t[0], kids))
                if k % 9973 == 0:
                    part.sample({'core': desc, 'printed': txt})
            part.count('trees')
            # (parent, child, side) cells
            for side, kchild in enumerate(t[1:]):
                if isinstance(kchild, list):
                    part.count(f'cell:{t[0]}/{kchild[0]}/{side}')
    return part.dump()


# ------------------------------------------------------------------------------------- end to end
# typed Mamba expression trees: ('I'|'B'|'F', node)
INT_BIN = [('Add', '+'), ('Sub', '-'), ('Mul', '*'), ('FDiv', '//'), ('Mod', 'mod'), ('Pow', '^')]
BIT_BIN = [('BAnd', '_and_'), ('BOr', '_or_'), ('BXOr', '_xor_'), ('BLShift', '<<'), ('BRShift', '>>')]
CMP_BIN = [('Le', '<'), ('Leq', '<='), ('Ge', '>'), ('Geq', '>='), ('Eq', '=')]
BOOL_BIN = [('And', 'and'), ('Or', 'or')]
LEVEL = {'And': 7, 'Or': 7, 'Le': 6, 'Leq': 6, 'Ge': 6, 'Geq': 6, 'Eq': 6, 'BAnd': 5, 'BOr': 5, 'BXOr': 5, 'BLShift': 5,
         'BRShift': 5, 'Add': 4, 'Sub': 4, 'Mul': 3, 'FDiv': 3, 'Mod': 3, 'Div': 3, 'Pow': 1, 'SubU': 2, 'AddU': 2, 'Not': 2,
         'BOneCmpl': 2, 'Sqrt': 2}
SPELL = dict(INT_BIN + BIT_BIN + CMP_BIN + BOOL_BIN + [('Div', '/')])


def gen_int(r, d, bits):
    if d == 0 or r.random() < 0.15:
        return r.choice([['Id', 'a'], ['Id', 'b'], ['Id', 'c'], ['Int', str(r.randrange(1, 9))]])
    c = r.random()
    if c < 0.12:
        return ['SubU', gen_int(r, d - 1, bits)]
    ops = INT_BIN + (BIT_BIN if bits else [])
    op = r.choice(ops)[0]
    return [op, gen_int(r, d - 1, bits), gen_int(r, d - 1, bits)]


def gen_bool(r, d, bits):
    if d == 0:
        return r.choice([['Id', 'p'], ['Id', 'q'], ['Bool', 'True']])
    c = r.random()
    if c < 0.4:
        return [r.choice(CMP_BIN)[0], gen_int(r, d - 1, bits), gen_int(r, d - 1, bits)]
    if c < 0.55:
        return ['Not', gen_bool(r, d - 1, bits)]
    return [r.choice(BOOL_BIN)[0], gen_bool(r, d - 1, bits), gen_bool(r, d - 1, bits)]


def mamba_full(t):
    """Fully parenthesised Mamba spelling."""
    h = t[0]
    if h in ('Id', 'Int', 'Bool'): return t[1]
    if h == 'SubU': return f'(-{mamba_full(t[1])})'
    if h == 'Not': return f'(not {mamba_full(t[1])})'
    return f'({mamba_full(t[1])} {SPELL[h]} {mamba_full(t[2])})'


def mamba_min(t, ctx_level=8, side='r'):
    """Minimal parentheses under the Mamba grammar (Appendix B): every binary level is right-nested:
    left operand is parsed one level tighter, right operand at the same level. Unary - takes a level-2
    operand; `not` takes a whole expression; `^`: left operand is a postfix/atom level, right operand level 1."""
    h = t[0]
    if h in ('Id', 'Int', 'Bool'):
        return t[1]
    if h == 'SubU':
        s = '-' + mamba_min(t[1], 2, 'r')
        lv = 2
    elif h == 'Not':
        s = 'not ' + mamba_min(t[1], 8, 'r')
        lv = 2
        # `not` swallows everything to its right: it can only stand where nothing follows at this level
        if side == 'l':
            return '(' + s + ')'
    elif h == 'Pow':
        s = mamba_min(t[1], 0, 'l') + ' ^ ' + mamba_min(t[2], 1, 'r')
        lv = 1
    else:
        lv = LEVEL[h]
        s = mamba_min(t[1], lv - 1, 'l') + f' {SPELL[h]} ' + mamba_min(t[2], lv, 'r')
    if lv > ctx_level:
        return '(' + s + ')'
    return s


def unary_helpers(t):
    """Unary minus has no inferred type of its own on this tree; an expression `a - <the same unary expression>`
    elsewhere in the program gives it one (inference unifies structurally equal expressions). Without these helper
    lines most expressions containing a unary minus would be rejected and never exercised."""
    subs = []

    def rec(x):
        if isinstance(x, list):
            if x[0] == 'SubU' and x not in subs:
                subs.append(x)
            for y in x[1:]:
                rec(y)
    rec(t)
    return ''.join(f'def hz{i}: Int := a - {mamba_full(u)}\n' for i, u in enumerate(subs))


def e2e_case(w, part, t, ty, style):
    src_expr = mamba_full(t) if style == 'full' else mamba_min(t)
    # see unary_helpers
    src = ('def a: Int := 7\ndef b: Int := 3\ndef c: Int := 2\ndef p: Bool := True\ndef q: Bool := False\n'
           f'def r: {ty} := {src_expr}\n' + unary_helpers(t))
    res = w.pipe(src, annotate=False)
    k = res.get('k')
    part.count('e2e:' + style)
    if k == 'err':
        part.count('e2e-rejected'); part.evaluations += 1
        return
    if k != 'ok':
        part.inconc('e2e-worker-' + str(k)); return
    py = res['py'][0]
    try:
        mod = ast.parse(py)
        val = None
        for st in mod.body:
            if isinstance(st, (ast.Assign, ast.AnnAssign)):
                tgt = st.targets[0] if isinstance(st, ast.Assign) else st.target
                if isinstance(tgt, ast.Name) and tgt.id == 'r':
                    val = st.value
        if val is None:
            raise SyntaxError('no assignment to r')
        got = norm(val)
    except SyntaxError:
        part.violation('e2e-' + cell_of(t, True), {'kind': 'e2e', 'src': src, 'py': py, 'tree': t, 'style': style}); return
    want = norm(exp(t))
    if got != want:
        part.violation('e2e-' + style + '-' + cell_of(t, False), {'kind': 'e2e', 'src': src, 'py': py, 'tree': t, 'style': style})
    else:
        part.held(('e2e', style, t[0], tuple(k_[0] for k_ in t[1:] if isinstance(k_, list))))
        if part.cov.get('e2e-ok', 0) % 400 == 0:
            part.sample({'mamba': src_expr, 'python': ast.unparse(val), 'style': style})
        part.count('e2e-ok')


def shard_e2e(i, n, count):
    w = Worker(); part = Partial()
    # systematic: all operator pairs x side, Int and Bool universes
    k = 0
    leaves = {'I': ['Id', 'a'], 'B': ['Id', 'p']}

    def int_ops(bits=True):
        return [o for o, _ in INT_BIN + (BIT_BIN if bits else [])]
    systematic = []
    for p in int_ops():
        for ch in int_ops() + ['SubU', 'SubU-lit', 'SubU-SubU']:
            for side in (1, 2):
                child = ({'SubU': ['SubU', ['Id', 'b']], 'SubU-lit': ['SubU', ['Int', '3']], 'SubU-SubU': ['SubU', ['SubU', ['Int', '2']]]}.get(ch)
                         or [ch, ['Id', 'b'], ['Id', 'c']])
                t = [p, child, ['Id', 'a']] if side == 1 else [p, ['Id', 'a'], child]
                systematic.append((t, 'Int'))
        systematic.append((['SubU', [p, ['Id', 'a'], ['Id', 'b']]], 'Int'))
        systematic.append((['SubU', [p, ['SubU', ['Int', '3']], ['Int', '2']]], 'Int'))
    for cmpo, _ in CMP_BIN:
        for ch in int_ops():
            for side in (1, 2):
                child = [ch, ['Id', 'b'], ['Id', 'c']]
                systematic.append(([cmpo, child, ['Id', 'a']] if side == 1 else [cmpo, ['Id', 'a'], child], 'Bool'))
    for bo, _ in BOOL_BIN:
        for ch in ['And', 'Or', 'Not', 'Le', 'Eq']:
            for side in (1, 2):
                child = {'Not': ['Not', ['Id', 'q']], 'Le': ['Le', ['Id', 'a'], ['Id', 'b']], 'Eq': ['Eq', ['Id', 'a'], ['Id', 'b']]}.get(ch) or [ch, ['Id', 'q'], ['Id', 'p']]
                systematic.append(([bo, child, ['Id', 'p']] if side == 1 else [bo, ['Id', 'p'], child], 'Bool'))
        systematic.append((['Not', [bo, ['Id', 'p'], ['Id', 'q']]], 'Bool'))
    for t, ty in systematic:
        for style in ('full', 'min'):
            k += 1
            if k % n == i:
                e2e_case(w, part, t, ty, style)
                part.count('e2e-systematic')
    for j in range(i, count, n):
        r = rng(PROP, 'e2e', j)
        if r.random() < 0.55:
            t, ty = gen_int(r, r.randrange(2, 5), r.random() < 0.5), 'Int'
        else:
            t, ty = gen_bool(r, r.randrange(2, 5), r.random() < 0.3), 'Bool'
        e2e_case(w, part, t, ty, 'full' if r.random() < 0.5 else 'min')
    w.close()
    return part.dump()


def selftest():
    # canary: the comparison must see a dropped parenthesis and accept a correct print
    sig, _ = judge('(Mul (Add (Id a) (Id b)) (Id c))', 'a + b * c')
    assert sig and sig.startswith('struct:Mul'), sig
    sig, _ = judge('(Mul (Add (Id a) (Id b)) (Id c))', '(a + b) * c')
    assert sig is None, sig
    sig, _ = judge('(Le (Le (Id a) (Id b)) (Id c))', 'a < b < c')
    assert sig, 'comparison chain must not be taken for nested comparison'
    sig, _ = judge('(And (And (Id a) (Id b)) (Id c))', 'a and b and c')
    assert sig is None
    sig, _ = judge('(And (Id a) (And (Id b) (Id c)))', 'a and b and c')
    assert sig, 'right-nested and must keep its parentheses'
    assert mamba_min(['Sub', ['Id', 'a'], ['Sub', ['Id', 'b'], ['Id', 'c']]]) == 'a - b - c'
    assert mamba_min(['Sub', ['Sub', ['Id', 'a'], ['Id', 'b']], ['Id', 'c']]) == '(a - b) - c'
    assert mamba_min(['Mul', ['Add', ['Id', 'a'], ['Id', 'b']], ['Id', 'c']]) == '(a + b) * c'


def gen_file(args, path):
    with open(path, 'w') as f:
        p = subprocess.run([common.MVH, 'core'] + args, stdout=f, stderr=subprocess.PIPE, text=True)
    if p.returncode != 0:
        raise common.Inconclusive('mvh core failed: ' + p.stderr[-300:])


def replay_entries(rep):
    rep.known_live = {}
    w = Worker()
    for sig, (wit, what) in list(rep.known.known.items()) + [(None, (x[2], x[1])) for x in rep.known.fixed if x[2]]:
        obj = json.load(open(os.path.join(common.ROOT, wit)))
        part = Partial()
        run_witness(w, obj, part)
        if sig is not None:
            rep.known_live[sig] = sig in part.violations
        else:
            rep.count('fixed-regressions-replayed')
        for s, (wt, c) in part.violations.items():
            rep.violation(s, wt)
    w.close()


def run_witness(w, obj, part):
    if obj['kind'] == 'core':
        # re-print through the real printer: the descriptor is re-enumerated by mvh only in bulk, so the
        # witness is re-judged by locating it in a fresh enumeration of its depth class
        out = subprocess.run([common.MVH, 'core', 'exhaustive', '2', '1'], stdout=subprocess.PIPE, text=True).stdout
        for line in out.splitlines():
            desc, _, txt = line.partition('\t')
            if desc == obj['desc']:
                sig, t = judge(desc, txt.replace('\\n', '\n'))
                if sig:
                    part.violation(sig, {'kind': 'core', 'desc': desc, 'printed': txt})
                else:
                    part.held()
                return
        part.inconc('witness-not-in-enumeration')
    else:
        ty = 'Bool' if obj['tree'][0] in ('And', 'Or', 'Not', 'Le', 'Leq', 'Ge', 'Geq', 'Eq') else 'Int'
        e2e_case(w, part, obj['tree'], ty, obj.get('style', 'full'))


def main(tier):
    common.build()
    selftest()
    rep = Report(PROP, tier, 'exploration')
    rep.rule = ('one evaluation = one expression tree printed by the real Display for Core (or transpiled end to end) and '
                'parsed back by CPython; distinct = distinct (parent operator, child operator kinds) shapes that held; every '
                'tree has at least one operator except the three leaf forms')
    rep.assumptions = ['CPython 3.11 ast.parse defines how printed text groups',
                       'BoolOp flattening of left-nested same-operator and/or is semantically neutral and normalised on both sides',
                       'Appendix B of DESIGN.md is the reading of the Mamba grammar used for the minimal-parentheses spelling']
    replay_entries(rep)
    tmp = os.path.join(common.TARGET, 'c10')
    os.makedirs(tmp, exist_ok=True)
    ex = os.path.join(tmp, 'exhaustive.tsv')
    gen_file(['exhaustive', '2', '1'], ex)
    for d in run_shards(shard_lines, (ex,)):
        rep.merge(d)
    n_ex = rep.cov.get('trees', 0)
    rnd = os.path.join(tmp, 'random.tsv')
    nrand = 20000 if tier == 'quick' else 600000
    gen_file(['random', str(nrand), str(common.SEED), '7'], rnd)
    for d in run_shards(shard_lines, (rnd,)):
        rep.merge(d)
    ne2e = 1500 if tier == 'quick' else 40000
    for d in run_shards(shard_e2e, (ne2e,)):
        rep.merge(d)
    cells = [k for k in rep.cov if k.startswith('cell:')]
    floors = [('exhaustive enumeration produced >= 90000 trees', n_ex >= 90000),
              ('>= 2000 (parent, child, side) cells visited', len(cells) >= 2000),
              ('>= 60% of end-to-end expressions accepted', rep.cov.get('e2e-ok', 0) >= 0.6 * (rep.cov.get('e2e:full', 0) + rep.cov.get('e2e:min', 0)))]
    ncell = len(cells)
    for k in cells:
        del rep.cov[k]
    return rep.finish(floors, extra_cov={'exhaustive_trees': n_ex, 'random_trees': nrand, 'parent_child_side_cells': ncell},
                      exhaustive=True)


def replay(path):
    common.build()
    obj = json.load(open(path))['witness']
    w = Worker(); part = Partial()
    run_witness(w, obj, part)
    w.close()
    if part.violations:
        print(f'VIOLATION property={PROP} replay={path}')
        return 1
    print('replay: held')
    return 0
