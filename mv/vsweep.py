"""Verdict sweeps for the static properties C05-C09: small Mamba programs (text templates), every use-site x
filler x context cell once, each labelled by the reference typing discipline with the verdict the property
demands (accept / reject). The monitor compares with the verdict of the real pipeline."""

PRELUDE = '''class Base(def bx: Int)
    def get(self) -> Int => self.bx

class Child(bx: Int, def cy: Int): Base(bx)
    def more(self) -> Int => self.cy

class Other(def oz: Str)
    def name(self) -> Str => self.oz

class Holder(def hi: Int, def hf: Float, def hs: Str, def hb: Base)
    def mi(self, a: Int) -> Int => a
    def mf(self, a: Float, b: Int := 1) -> Float => a
    def ms(self, a: Str) -> Str => a
    def mb(self, a: Base) -> Int => a.get()
    def mc(self, a: Child) -> Int => a.more()

class Boom(msg: Str): Exception(msg)

def boomf() -> Int raise [Boom] =>
    raise Boom("b")
    0

def fi(a: Int) -> Int => a + 1
def ff(a: Float) -> Float => a
def fs(a: Str, b: Int := 2) -> Str => a
def fbool(a: Bool) -> Bool => a
def fb(a: Base) -> Int => a.get()
def fc(a: Child) -> Int => a.more()
def fo(a: Other) -> Str => a.name()
def fany(a: Any) -> Int => 1
'''

PRIM_SUB = {('Int', 'Float'), ('Int', 'Complex'), ('Float', 'Complex')}
CLASS_PARENT = {'Child': ['Base'], 'Base': [], 'Other': [], 'Holder': [], 'Boom': ['Exception']}


def ancestors(c):
    out = [c]
    for p in CLASS_PARENT.get(c, []):
        out += ancestors(p)
    return out


def is_sub(a, b):
    """The reference typing discipline: a usable where b is declared."""
    if a == b:
        return True
    if b == 'Any':
        return not a.endswith('?') and a != 'None?'
    if a == 'None':
        return b.endswith('?')
    if a.endswith('?') and not b.endswith('?'):
        return False
    a0, b0 = a.rstrip('?'), b.rstrip('?')
    if a0 == b0:
        return True
    if (a0, b0) in PRIM_SUB:
        return True
    if a0 in CLASS_PARENT and b0 in ancestors(a0):
        return True
    return False


# fillers: type -> list of (form name, setup lines, expression)
FILLERS = {
    'Int': [('lit', [], '3'), ('var', ['def fvi: Int := 3'], 'fvi'), ('call', [], 'fi(1)'), ('expr', [], '(1 + 2)')],
    'Float': [('lit', [], '2.5'), ('var', ['def fvf: Float := 2.5'], 'fvf'), ('call', [], 'ff(1.5)')],
    'Str': [('lit', [], '"s"'), ('var', ['def fvs: Str := "s"'], 'fvs'), ('fstr', [], '"a{1}"')],
    'Bool': [('lit', [], 'True'), ('var', ['def fvb: Bool := False'], 'fvb'), ('cmp', [], '(1 < 2)')],
    'Base': [('new', [], 'Base(1)'), ('var', ['def fvo: Base := Base(1)'], 'fvo')],
    'Child': [('new', [], 'Child(1, 2)'), ('var', ['def fvc: Child := Child(1, 2)'], 'fvc')],
    'Other': [('new', [], 'Other("o")'), ('var', ['def fvx: Other := Other("o")'], 'fvx')],
}

# use sites with one typed hole: (name, expected type, setup lines, statement with @H@)
USES = [
    ('call-int', 'Int', [], 'print(fi(@H@))'),
    ('call-float', 'Float', [], 'print(ff(@H@))'),
    ('call-str', 'Str', [], 'print(fs(@H@))'),
    ('call-str-2nd', 'Int', [], 'print(fs("a", @H@))'),
    ('call-bool', 'Bool', [], 'print(fbool(@H@))'),
    ('call-base', 'Base', [], 'print(fb(@H@))'),
    ('call-child', 'Child', [], 'print(fc(@H@))'),
    ('call-any', 'Any', [], 'print(fany(@H@))'),
    ('nested-call-arg', 'Int', [], 'print(fi(fi(@H@)))'),
    ('method-int', 'Int', ['def uh := Holder(1, 1.5, "s", Base(1))'], 'print(uh.mi(@H@))'),
    ('method-float', 'Float', ['def uh := Holder(1, 1.5, "s", Base(1))'], 'print(uh.mf(@H@))'),
    ('method-base', 'Base', ['def uh := Holder(1, 1.5, "s", Base(1))'], 'print(uh.mb(@H@))'),
    ('method-child', 'Child', ['def uh := Holder(1, 1.5, "s", Base(1))'], 'print(uh.mc(@H@))'),
    ('ctor-int', 'Int', [], 'def uo := Base(@H@)'),
    ('ctor-float', 'Float', [], 'def uo := Holder(1, @H@, "s", Base(1))'),
    ('ctor-str', 'Str', [], 'def uo := Other(@H@)'),
    ('ctor-base', 'Base', [], 'def uo := Holder(1, 1.5, "s", @H@)'),
    ('local-int', 'Int', [], 'def ul: Int := @H@'),
    ('local-float', 'Float', [], 'def ul: Float := @H@'),
    ('local-str', 'Str', [], 'def ul: Str := @H@'),
    ('local-bool', 'Bool', [], 'def ul: Bool := @H@'),
    ('local-base', 'Base', [], 'def ul: Base := @H@'),
    ('local-child', 'Child', [], 'def ul: Child := @H@'),
    ('reassign-int', 'Int', ['def ur: Int := 0'], 'ur := @H@'),
    ('reassign-float', 'Float', ['def ur: Float := 0.5'], 'ur := @H@'),
    ('reassign-base', 'Base', ['def ur: Base := Base(0)'], 'ur := @H@'),
    ('field-int', 'Int', ['def uh := Holder(1, 1.5, "s", Base(1))'], 'uh.hi := @H@'),
    ('field-float', 'Float', ['def uh := Holder(1, 1.5, "s", Base(1))'], 'uh.hf := @H@'),
    ('field-str', 'Str', ['def uh := Holder(1, 1.5, "s", Base(1))'], 'uh.hs := @H@'),
    ('field-base', 'Base', ['def uh := Holder(1, 1.5, "s", Base(1))'], 'uh.hb := @H@'),
]

# arity cells: (name, statement, conforms)
ARITY = [
    ('fi-0', 'print(fi())', False), ('fi-1', 'print(fi(1))', True), ('fi-2', 'print(fi(1, 2))', False),
    ('fs-0', 'print(fs())', False), ('fs-1-default-omitted', 'print(fs("a"))', True), ('fs-2', 'print(fs("a", 1))', True), ('fs-3', 'print(fs("a", 1, 2))', False),
    ('method-0', 'print(Holder(1, 1.5, "s", Base(1)).mi())', False), ('method-1', 'print(Holder(1, 1.5, "s", Base(1)).mi(1))', True),
    ('method-2', 'print(Holder(1, 1.5, "s", Base(1)).mi(1, 2))', False),
    ('method-default-omitted', 'print(Holder(1, 1.5, "s", Base(1)).mf(1.5))', True), ('method-default-given', 'print(Holder(1, 1.5, "s", Base(1)).mf(1.5, 2))', True),
    ('method-default-too-many', 'print(Holder(1, 1.5, "s", Base(1)).mf(1.5, 2, 3))', False),
    ('ctor-0', 'def ao := Base()', False), ('ctor-1', 'def ao := Base(1)', True), ('ctor-2', 'def ao := Base(1, 2)', False),
    ('ctor-child-1', 'def ao := Child(1)', False), ('ctor-child-2', 'def ao := Child(1, 2)', True), ('ctor-child-3', 'def ao := Child(1, 2, 3)', False),
]

CONTEXTS = ['top', 'fun', 'method', 'loop', 'then', 'else', 'arm', 'handle-arm', 'fun-loop-if']


def ind(lines, n):
    return ['    ' * n + l for l in lines]


def wrap(stmts, ctx, extra_top=()):
    """Full source: PRELUDE + extra top-level definitions + stmts placed in the context."""
    top = list(extra_top)
    if ctx == 'top':
        main = stmts
    elif ctx == 'fun':
        top += ['def wrapf() -> Int =>'] + ind(stmts + ['0'], 1)
        main = ['print(wrapf())']
    elif ctx == 'method':
        top += ['class Wrap', '    def run(self) -> Int =>'] + ind(stmts + ['0'], 2)
        main = ['def wrapo := Wrap()', 'print(wrapo.run())']
    elif ctx == 'loop':
        main = ['for wz in 0 .. 2 do'] + ind(stmts, 1)
    elif ctx == 'then':
        main = ['if 1 < 2 then'] + ind(stmts, 1) + ['else', '    print("no")']
    elif ctx == 'else':
        main = ['if 1 > 2 then', '    print("no")', 'else'] + ind(stmts, 1)
    elif ctx == 'arm':
        main = ['match 1', '    0 =>', '        print("no")', '    1 =>'] + ind(stmts, 2) + ['    _ =>', '        print("nor")']
    elif ctx == 'handle-arm':
        main = ['boomf() handle', '    werr: Boom =>'] + ind(stmts, 2)
    elif ctx == 'fun-loop-if':
        top += ['def wrapf(wk: Int) -> Int =>', '    for wz in 0 .. wk do', '        if wz = 1 then'] + ind(stmts, 3) + ['        else', '            print("skip")', '    0']
        main = ['print(wrapf(2))']
    else:
        raise KeyError(ctx)
    return PRELUDE + '\n' + '\n'.join(top) + ('\n\n' if top else '') + '\n'.join(main) + '\n'


def category(actual, expected):
    if actual == expected:
        return 'exact'
    if is_sub(actual, expected):
        return 'subtype'
    if is_sub(expected, actual):
        return 'supertype'
    return 'unrelated'


def c05_cells():
    """(cell id, group id, source, must_accept, meta)"""
    out = []
    for uname, ety, usetup, stmt in USES:
        for fty, forms in FILLERS.items():
            for fname, fsetup, expr in forms:
                conforms = is_sub(fty, ety)
                cat = category(fty, ety)
                for ctx in CONTEXTS:
                    stmts = usetup + fsetup + [stmt.replace('@H@', expr)]
                    cid = f'{uname}<-{fty}/{fname}@{ctx}'
                    gid = f"{uname.split('-')[0]}:{cat}:{ctx}"
                    out.append((cid, gid, wrap(stmts, ctx), conforms, {'use': uname, 'expected_type': ety, 'filler_type': fty, 'form': fname, 'ctx': ctx, 'category': cat,
                                                                        'rule': 'argument' if uname.split('-')[0] in ('call', 'nested', 'method', 'ctor') else 'initialiser'}))
    for aname, stmt, conforms in ARITY:
        for ctx in CONTEXTS:
            out.append((f'arity:{aname}@{ctx}', f'arity:{"ok" if conforms else "bad"}:{ctx}', wrap([stmt], ctx), conforms, {'use': 'arity', 'ctx': ctx, 'rule': 'arity', 'stmt': stmt}))
    # returns: the function is the context
    RET_CTX = {
        'tail': ['@R@'],
        'return': ['return @R@'],
        'if-return': ['if k > 0 then', '    return @R@', '@V@'],
        'if-else-tail': ['if k > 0 then', '    @R@', 'else', '    @V@'],
        'else-tail': ['if k > 5 then', '    @V@', 'else', '    @R@'],
        'match-arm-tail': ['match k', '    1 =>', '        @R@', '    _ =>', '        @V@'],
        'loop-return': ['for z in 0 .. k do', '    return @R@', '@V@'],
    }
    VALID = {'Int': '7', 'Float': '7.5', 'Str': '"v"', 'Bool': 'False', 'Base': 'Base(7)', 'Child': 'Child(7, 8)'}
    for rty in ('Int', 'Float', 'Str', 'Bool', 'Base', 'Child'):
        for fty, forms in FILLERS.items():
            fname, fsetup, expr = forms[0]
            conforms = is_sub(fty, rty)
            cat = category(fty, rty)
            for rc, lines in RET_CTX.items():
                body = [l.replace('@R@', expr).replace('@V@', VALID[rty]) for l in lines]
                for holder in ('fun', 'method'):
                    if holder == 'fun':
                        top = [f'def retf(k: Int) -> {rty} =>'] + ind(body, 1)
                        main = ['def rr := retf(1)', 'print("done")']
                    else:
                        top = ['class RetC', f'    def retm(self, k: Int) -> {rty} =>'] + ind(body, 2)
                        main = ['def rr := RetC().retm(1)', 'print("done")']
                    src = PRELUDE + '\n' + '\n'.join(top) + '\n\n' + '\n'.join(main) + '\n'
                    out.append((f'return-{rty}<-{fty}@{holder}/{rc}', f'return:{cat}:{holder}/{rc}', src, conforms,
                                {'use': 'return', 'expected_type': rty, 'filler_type': fty, 'ctx': f'{holder}/{rc}', 'category': cat, 'rule': 'return'}))
    return out
