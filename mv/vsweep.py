"""Verdict sweeps for the static properties C05-C09: small Mamba programs (text templates), every use-site x
filler x context cell once, each labelled by the reference typing discipline with the verdict the property
demands (accept / reject). The monitor compares with the verdict of the real pipeline."""

PRELUDE = '''class Base(def bx: Int)
    def get(self) -> Int => self.bx

class Child(bx: Int, def cy: Int): Base(bx)
    def more(self) -> Int => self.cy

class GrandChild(bx: Int, cy: Int, def gz: Int): Child(bx, cy)
    def most(self) -> Int => self.gz

class Other(def oz: Str)
    def name(self) -> Str => self.oz

class Holder(def hi: Int, def hf: Float, def hs: Str, def hb: Base)
    def mi(self, a: Int) -> Int => a + 1
    def mf(self, a: Float, b: Int := 1) -> Float => a * 2.0
    def ms(self, a: Str) -> Str => a + "m"
    def mb(self, a: Base) -> Int => a.get()
    def mc(self, a: Child) -> Int => a.more()
    def m2(self, a: Int, b: Int) -> Int => a + b
    def m3(self, a: Int, b: Int, c: Str := "c") -> Int => a + b

class Boom(msg: Str): Exception(msg)

def boomf() -> Int raise [Boom] =>
    raise Boom("b")
    0

def fi(a: Int) -> Int => a + 1
def ff(a: Float) -> Float => a * 2.0
def fs(a: Str, b: Int := 2) -> Str => a + "f{b + 1}"
def fbool(a: Bool) -> Bool => a
def fb(a: Base) -> Int => a.get()
def fc(a: Child) -> Int => a.more()
def fo(a: Other) -> Str => a.name()
def fany(a: Any) -> Int => 1
def f2(a: Int, b: Int) -> Int => a + b
def f3(a: Int, b: Str, c: Int := 1, d: Int := 2) -> Int => a + c
'''

PRIM_SUB = {('Int', 'Float'), ('Int', 'Complex'), ('Float', 'Complex')}
CLASS_PARENT = {'Child': ['Base'], 'GrandChild': ['Child'], 'Base': [], 'Other': [], 'Holder': [], 'Boom': ['Exception']}


def ancestors(c):
    out = [c]
    for p in CLASS_PARENT.get(c, []):
        out += ancestors(p)
    return out


def is_sub(a, b):
    """The reference typing discipline: a usable where b is declared."""
    if a == b:
        return True
    if b == 'Any':
        return not a.endswith('?') and a != 'None?'
    if a == 'None':
        return b.endswith('?')
    if a.endswith('?') and not b.endswith('?'):
        return False
    a0, b0 = a.rstrip('?'), b.rstrip('?')
    if a0 == b0:
        return True
    if (a0, b0) in PRIM_SUB:
        return True
    if a0 in CLASS_PARENT and b0 in ancestors(a0):
        return True
    return False


# fillers: type -> list of (form name, setup lines, expression)
FILLERS = {
    'Int': [('lit', [], '3'), ('var', ['def fvi: Int := 3'], 'fvi'), ('ivar', ['def fwi := 3'], 'fwi'), ('call', [], 'fi(1)'), ('expr', [], '(1 + 2)')],
    'Float': [('lit', [], '2.5'), ('var', ['def fvf: Float := 2.5'], 'fvf'), ('ivar', ['def fwf := 2.5'], 'fwf'), ('call', [], 'ff(1.5)')],
    'Str': [('lit', [], '"s"'), ('var', ['def fvs: Str := "s"'], 'fvs'), ('ivar', ['def fws := "s"'], 'fws'), ('fstr', [], '"a{1}"')],
    'Bool': [('lit', [], 'True'), ('var', ['def fvb: Bool := False'], 'fvb'), ('cmp', [], '(1 < 2)')],
    'Base': [('new', [], 'Base(1)'), ('var', ['def fvo: Base := Base(1)'], 'fvo'), ('ivar', ['def fwo := Base(1)'], 'fwo')],
    'Child': [('new', [], 'Child(1, 2)'), ('var', ['def fvc: Child := Child(1, 2)'], 'fvc')],
    'Other': [('new', [], 'Other("o")'), ('var', ['def fvx: Other := Other("o")'], 'fvx')],
    'GrandChild': [('new', [], 'GrandChild(1, 2, 3)'), ('var', ['def fvg: GrandChild := GrandChild(1, 2, 3)'], 'fvg')],
}

# a second definition of the filler's variable name, of another type, in a scope that has ended before the use
OTHER_TY = {'Int': ('Str', '"q"'), 'Float': ('Str', '"q"'), 'Str': ('Int', '9'), 'Bool': ('Str', '"q"'), 'Base': ('Int', '9'), 'Child': ('Int', '9'), 'Other': ('Int', '9'), 'GrandChild': ('Int', '9')}

# use sites with one typed hole: (name, expected type, setup lines, statement with @H@)
USES = [
    ('call-int', 'Int', [], 'print(fi(@H@))'),
    ('call-float', 'Float', [], 'print(ff(@H@))'),
    ('call-str', 'Str', [], 'print(fs(@H@))'),
    ('call-str-2nd', 'Int', [], 'print(fs("a", @H@))'),
    ('call-bool', 'Bool', [], 'print(fbool(@H@))'),
    ('call-base', 'Base', [], 'print(fb(@H@))'),
    ('call-child', 'Child', [], 'print(fc(@H@))'),
    ('call-any', 'Any', [], 'print(fany(@H@))'),
    ('nested-call-arg', 'Int', [], 'print(fi(fi(@H@)))'),
    ('method-int', 'Int', ['def uh := Holder(1, 1.5, "s", Base(1))'], 'print(uh.mi(@H@))'),
    ('method-float', 'Float', ['def uh := Holder(1, 1.5, "s", Base(1))'], 'print(uh.mf(@H@))'),
    ('method-base', 'Base', ['def uh := Holder(1, 1.5, "s", Base(1))'], 'print(uh.mb(@H@))'),
    ('method-child', 'Child', ['def uh := Holder(1, 1.5, "s", Base(1))'], 'print(uh.mc(@H@))'),
    ('ctor-int', 'Int', [], 'def uo := Base(@H@)'),
    ('ctor-float', 'Float', [], 'def uo := Holder(1, @H@, "s", Base(1))'),
    ('ctor-str', 'Str', [], 'def uo := Other(@H@)'),
    ('ctor-base', 'Base', [], 'def uo := Holder(1, 1.5, "s", @H@)'),
    ('local-int', 'Int', [], 'def ul: Int := @H@'),
    ('local-float', 'Float', [], 'def ul: Float := @H@'),
    ('local-str', 'Str', [], 'def ul: Str := @H@'),
    ('local-bool', 'Bool', [], 'def ul: Bool := @H@'),
    ('local-base', 'Base', [], 'def ul: Base := @H@'),
    ('local-child', 'Child', [], 'def ul: Child := @H@'),
    ('reassign-int', 'Int', ['def ur: Int := 0'], 'ur := @H@'),
    ('reassign-float', 'Float', ['def ur: Float := 0.5'], 'ur := @H@'),
    ('reassign-base', 'Base', ['def ur: Base := Base(0)'], 'ur := @H@'),
    ('field-int', 'Int', ['def uh := Holder(1, 1.5, "s", Base(1))'], 'uh.hi := @H@'),
    ('field-float', 'Float', ['def uh := Holder(1, 1.5, "s", Base(1))'], 'uh.hf := @H@'),
    ('field-str', 'Str', ['def uh := Holder(1, 1.5, "s", Base(1))'], 'uh.hs := @H@'),
    ('field-base', 'Base', ['def uh := Holder(1, 1.5, "s", Base(1))'], 'uh.hb := @H@'),
]

# arity cells: (name, statement, conforms)
ARITY = [
    ('fi-0', 'print(fi())', False), ('fi-1', 'print(fi(1))', True), ('fi-2', 'print(fi(1, 2))', False),
    ('fs-0', 'print(fs())', False), ('fs-1-default-omitted', 'print(fs("a"))', True), ('fs-2', 'print(fs("a", 1))', True), ('fs-3', 'print(fs("a", 1, 2))', False),
    ('method-0', 'print(Holder(1, 1.5, "s", Base(1)).mi())', False), ('method-1', 'print(Holder(1, 1.5, "s", Base(1)).mi(1))', True),
    ('method-2', 'print(Holder(1, 1.5, "s", Base(1)).mi(1, 2))', False),
    ('method-default-omitted', 'print(Holder(1, 1.5, "s", Base(1)).mf(1.5))', True), ('method-default-given', 'print(Holder(1, 1.5, "s", Base(1)).mf(1.5, 2))', True),
    ('method-default-too-many', 'print(Holder(1, 1.5, "s", Base(1)).mf(1.5, 2, 3))', False),
    ('f2-1', 'print(f2(1))', False), ('f2-2', 'print(f2(1, 2))', True), ('f2-3', 'print(f2(1, 2, 3))', False),
    ('f3-1', 'print(f3(1))', False), ('f3-2', 'print(f3(1, "b"))', True), ('f3-3', 'print(f3(1, "b", 3))', True), ('f3-4', 'print(f3(1, "b", 3, 4))', True),
    ('f3-5', 'print(f3(1, "b", 3, 4, 5))', False),
    ('m2-0', 'print(Holder(1, 1.5, "s", Base(1)).m2())', False), ('m2-1', 'print(Holder(1, 1.5, "s", Base(1)).m2(1))', False),
    ('m2-2', 'print(Holder(1, 1.5, "s", Base(1)).m2(1, 2))', True), ('m2-3', 'print(Holder(1, 1.5, "s", Base(1)).m2(1, 2, 3))', False),
    ('m3-1', 'print(Holder(1, 1.5, "s", Base(1)).m3(1))', False), ('m3-2', 'print(Holder(1, 1.5, "s", Base(1)).m3(1, 2))', True),
    ('m3-3', 'print(Holder(1, 1.5, "s", Base(1)).m3(1, 2, "x"))', True), ('m3-4', 'print(Holder(1, 1.5, "s", Base(1)).m3(1, 2, "x", 4))', False),
    ('inherited-method-0', 'print(Child(1, 2).get(1))', False), ('inherited-method-ok', 'print(Child(1, 2).get())', True),
    # the receiver itself (the same expression) as a further argument
    ('receiver-as-int-argument', 'def rh := Holder(1, 1.5, "s", Base(1))\nprint(rh.mi(rh))', False), ('receiver-as-base-argument', 'def rh := Holder(1, 1.5, "s", Base(1))\nprint(rh.mb(rh))', False),
    ('receiver-as-second-argument', 'def rh := Holder(1, 1.5, "s", Base(1))\nprint(rh.m2(1, rh))', False), ('receiver-new-as-argument', 'print(Base(1).get(Base(1)))', False),
    ('child-receiver-as-base-argument-ok', 'def rc := Child(1, 2)\nprint(fb(rc) + rc.more())', True),
    ('inherited-2-levels-ok', 'print(GrandChild(1, 2, 3).get())', True), ('inherited-2-levels-too-many', 'print(GrandChild(1, 2, 3).get(1))', False),
    ('inherited-1-of-2-levels-ok', 'print(GrandChild(1, 2, 3).more())', True), ('own-method-of-grandchild', 'print(GrandChild(1, 2, 3).most())', True),
    ('inherited-2-levels-through-variable', 'print(fb(GrandChild(1, 2, 3)) + GrandChild(4, 5, 6).get())', True),
    ('ctor-grandchild-2', 'def ao := GrandChild(1, 2)', False), ('ctor-grandchild-3', 'def ao := GrandChild(1, 2, 3)', True),
    ('nested-arg-arity', 'print(fi(f2(1)))', False), ('nested-arg-arity-ok', 'print(fi(f2(1, 2)))', True),
    ('ctor-0', 'def ao := Base()', False), ('ctor-1', 'def ao := Base(1)', True), ('ctor-2', 'def ao := Base(1, 2)', False),
    ('ctor-child-1', 'def ao := Child(1)', False), ('ctor-child-2', 'def ao := Child(1, 2)', True), ('ctor-child-3', 'def ao := Child(1, 2, 3)', False),
]

CONTEXTS = ['top', 'fun', 'method', 'loop', 'then', 'else', 'arm', 'handle-arm', 'fun-loop-if']


def ind(lines, n):
    return ['    ' * n + l for l in lines]


def wrap(stmts, ctx, extra_top=()):
    """Full source: PRELUDE + extra top-level definitions + stmts placed in the context."""
    top = list(extra_top)
    if ctx == 'top':
        main = stmts
    elif ctx == 'fun':
        top += ['def wrapf() -> Int =>'] + ind(stmts + ['0'], 1)
        main = ['print(wrapf())']
    elif ctx == 'method':
        top += ['class Wrap', '    def run(self) -> Int =>'] + ind(stmts + ['0'], 2)
        main = ['def wrapo := Wrap()', 'print(wrapo.run())']
    elif ctx == 'loop':
        main = ['for wz in 0 .. 2 do'] + ind(stmts, 1)
    elif ctx == 'then':
        main = ['if 1 < 2 then'] + ind(stmts, 1) + ['else', '    print("no")']
    elif ctx == 'else':
        main = ['if 1 > 2 then', '    print("no")', 'else'] + ind(stmts, 1)
    elif ctx == 'arm':
        main = ['match 1', '    0 =>', '        print("no")', '    1 =>'] + ind(stmts, 2) + ['    _ =>', '        print("nor")']
    elif ctx == 'handle-arm':
        main = ['boomf() handle', '    werr: Boom =>'] + ind(stmts, 2)
    elif ctx == 'fun-loop-if':
        top += ['def wrapf(wk: Int) -> Int =>', '    for wz in 0 .. wk do', '        if wz = 1 then'] + ind(stmts, 3) + ['        else', '            print("skip")', '    0']
        main = ['print(wrapf(2))']
    else:
        raise KeyError(ctx)
    return PRELUDE + '\n' + '\n'.join(top) + ('\n\n' if top else '') + '\n'.join(main) + '\n'


def category(actual, expected):
    if actual == expected:
        return 'exact'
    if is_sub(actual, expected):
        return 'subtype'
    if is_sub(expected, actual):
        return 'supertype'
    return 'unrelated'


def c05_cells():
    """(cell id, group id, source, must_accept, meta)"""
    out = []
    for uname, ety, usetup, stmt in USES:
        for fty, forms in FILLERS.items():
            for fname, fsetup, expr in forms:
                conforms = is_sub(fty, ety)
                cat = category(fty, ety)
                for ctx in CONTEXTS:
                    stmts = usetup + fsetup + [stmt.replace('@H@', expr)]
                    cid = f'{uname}<-{fty}/{fname}@{ctx}'
                    gid = f"{uname.split('-')[0]}:{cat}:{ctx}"
                    out.append((cid, gid, wrap(stmts, ctx), conforms, {'use': uname, 'expected_type': ety, 'filler_type': fty, 'form': fname, 'ctx': ctx, 'category': cat,
                                                                        'rule': 'argument' if uname.split('-')[0] in ('call', 'nested', 'method', 'ctor') else 'initialiser'}))
    # the filler variable's name is defined a second time, with another type, in a scope that ends before the use:
    # in a nested block, as parameter of a function, as local of a function. The use still sees the first definition.
    REUSE_USES = ('call-int', 'call-float', 'call-str', 'call-base', 'call-child', 'nested-call-arg', 'method-int', 'method-base', 'method-child', 'ctor-int', 'ctor-base',
                  'local-int', 'local-base', 'reassign-int', 'reassign-base', 'field-int', 'field-base')
    for uname, ety, usetup, stmt in USES:
        if uname not in REUSE_USES:
            continue
        for fty, forms in FILLERS.items():
            for fname, fsetup, expr in forms:
                if fname != 'var':
                    continue
                oty, oval = OTHER_TY[fty]
                conforms = is_sub(fty, ety)
                cat = category(fty, ety)
                reuse = {
                    'inner-block': (['if 1 < 2 then', f'    def {expr}: {oty} := {oval}', f'    print({expr})'], CONTEXTS),
                    'inner-loop': (['for zq in 0 .. 1 do', f'    def {expr}: {oty} := {oval}', f'    print({expr})'], ['top', 'fun', 'method']),
                    'later-function-parameter': ([f'def reusef({expr}: {oty}) -> Int => 1'], ['top']),
                    'later-function-local': (['def reuseg() -> Int =>', f'    def {expr}: {oty} := {oval}', '    1'], ['top']),
                    'later-lambda-parameter': ([f'def reusel := \\{expr}: {oty} => 1'], ['top', 'fun']),
                }
                for rname, (rlines, ctxs) in reuse.items():
                    for ctx in ctxs:
                        stmts = usetup + fsetup + rlines + [stmt.replace('@H@', expr)]
                        out.append((f'{uname}<-{fty}/var+{rname}@{ctx}', f"reuse-{rname}:{uname.split('-')[0]}:{cat}:{ctx}", wrap(stmts, ctx), conforms,
                                    {'use': uname, 'expected_type': ety, 'filler_type': fty, 'form': 'var+' + rname, 'ctx': ctx, 'category': cat, 'rule': 'scope'}))
    for aname, stmt, conforms in ARITY:
        for ctx in CONTEXTS:
            out.append((f'arity:{aname}@{ctx}', f'arity:{"ok" if conforms else "bad"}:{ctx}', wrap(stmt.split('\n'), ctx), conforms, {'use': 'arity', 'ctx': ctx, 'rule': 'arity', 'stmt': stmt}))
    # a diamond: the same ancestor along two paths (and a parent that is itself an ancestor's child)
    DIAMOND_TOP = ['class DLeft(bx: Int): Base(bx)', '    def left(self) -> Int => 1', 'class DRight(bx: Int): Base(bx)', '    def right(self) -> Int => 2',
                   'class DJoin(bx: Int): DLeft(bx), DRight(bx)', '    def joined(self) -> Int => 3', 'class DDeep(bx: Int): DJoin(bx), DLeft(bx)', '    def deep(self) -> Int => 4']
    DIAMOND = [('base-param<-join', 'print(fb(DJoin(1)))', True), ('inherited-through-both', 'print(DJoin(1).get() + DJoin(1).left() + DJoin(1).right())', True),
               ('left-variable<-join', 'def dj: DLeft := DJoin(1)', True), ('right-variable<-join', 'def dj: DRight := DJoin(1)', True), ('base-variable<-join', 'def dj: Base := DJoin(1)', True),
               ('other-variable<-join', 'def dj: Other := DJoin(1)', False), ('child-param<-join', 'print(fc(DJoin(1)))', False), ('join-variable<-left', 'def dj: DJoin := DLeft(1)', False),
               ('base-param<-deep', 'print(fb(DDeep(1)))', True), ('join-variable<-deep', 'def dj: DJoin := DDeep(1)', True), ('deep-inherits-all', 'print(DDeep(1).get() + DDeep(1).joined())', True)]
    for dname, stmt, conforms in DIAMOND:
        for ctx in CONTEXTS:
            out.append((f'diamond:{dname}@{ctx}', f"diamond:{'ok' if conforms else 'bad'}:{dname}:{ctx}", wrap([stmt], ctx, DIAMOND_TOP), conforms,
                        {'use': 'diamond', 'ctx': ctx, 'rule': 'argument', 'stmt': stmt}))
    # tuple and list typed positions: every component must conform
    GEN_USES = [('call-tuple2', '(Int, Int)', 'print(ft2(@H@))'), ('local-tuple2', '(Int, Int)', 'def gl: (Int, Int) := @H@'), ('call-tuple3', '(Int, Str, Int)', 'print(ft3(@H@))'),
                ('method-tuple2', '(Int, Int)', 'print(GH().mt2(@H@))'), ('call-list', 'List[Int]', 'print(flist(@H@))'), ('local-list', 'List[Int]', 'def gl: List[Int] := @H@'),
                ('call-float-tuple', '(Float, Float)', 'print(ftf(@H@))')]
    GEN_FILL = {
        '(Int, Int)': [('ok', '(1, 2)', True), ('bad-first', '("a", 2)', False), ('bad-last', '(1, "b")', False), ('bad-both', '("a", "b")', False), ('too-long', '(1, 2, 3)', False),
                       ('too-short-int', '1', False), ('float-first', '(1.5, 2)', False), ('float-last', '(1, 2.5)', False)],
        '(Int, Str, Int)': [('ok', '(1, "s", 2)', True), ('bad-first', '("a", "s", 2)', False), ('bad-middle', '(1, 5, 2)', False), ('bad-last', '(1, "s", "z")', False), ('too-short', '(1, "s")', False)],
        'List[Int]': [('ok', '[1, 2]', True), ('bad-elem', '["a"]', False), ('bad-last-elem', '[1, "a"]', False), ('bad-first-elem', '["a", 1]', False), ('not-a-list', '3', False)],
        '(Float, Float)': [('ok', '(1.5, 2.5)', True), ('int-components', '(1, 2)', True), ('int-first', '(1, 2.5)', True), ('bad-last', '(1.5, "s")', False), ('bad-first', '("s", 1.5)', False)],
    }
    GEN_TOP = ['def ft2(a: (Int, Int)) -> Int =>', '    def (tp, tq) := a', '    tp + tq', 'def ft3(a: (Int, Str, Int)) -> Int =>', '    def (tp, ts, tq) := a', '    def tz: Str := ts + "z"', '    tp + tq',
               'def flist(a: List[Int]) -> Int =>', '    def tot := 0', '    for le in a do tot := tot + le', '    tot', 'def ftf(a: (Float, Float)) -> Float =>', '    def (tp, tq) := a', '    tp * tq',
               'class GH', '    def mt2(self, a: (Int, Int)) -> Int =>', '        def (tp, tq) := a', '        tp + tq']
    for uname, ety, stmt in GEN_USES:
        for fname, expr, conforms in GEN_FILL[ety]:
            for ctx in CONTEXTS:
                out.append((f'{uname}<-{fname}@{ctx}', f'generic:{uname}:{fname}:{ctx}', wrap([stmt.replace('@H@', expr)], ctx, GEN_TOP), conforms,
                            {'use': uname, 'expected_type': ety, 'filler': fname, 'ctx': ctx, 'rule': 'argument'}))
    # returns: the function is the context
    RET_CTX = {
        'tail': ['@R@'],
        'return': ['return @R@'],
        'if-return': ['if k > 0 then', '    return @R@', '@V@'],
        'if-else-tail': ['if k > 0 then', '    @R@', 'else', '    @V@'],
        'else-tail': ['if k > 5 then', '    @V@', 'else', '    @R@'],
        'match-arm-tail': ['match k', '    1 =>', '        @R@', '    _ =>', '        @V@'],
        'loop-return': ['for z in 0 .. k do', '    return @R@', '@V@'],
        'pre+tail': ['def pre: Int := k + 1', '@R@'],
        'pre+if-else-tail': ['def pre: Int := k + 1', 'if pre > 0 then', '    @R@', 'else', '    @V@'],
        'pre+else-tail': ['def pre: Int := k + 1', 'print(pre)', 'if pre > 5 then', '    @V@', 'else', '    @R@'],
        'pre+match-arm-tail': ['def pre: Int := k + 1', 'match pre', '    1 =>', '        @R@', '    _ =>', '        @V@'],
        'nested-if-tail': ['if k > 0 then', '    if k > 1 then', '        @R@', '    else', '        @V@', 'else', '    @V@'],
        'pre+return': ['def pre: Int := k + 1', 'print(pre)', 'return @R@'],
        # the value of the function is a handled call: the arms give the value when the call raises (only for functions returning what the call returns)
        'handle-tail': ['boomf() handle', '    zerr: Boom => @R@'],
        'handle-block-arm-tail': ['boomf() handle', '    zerr: Boom =>', '        print("h")', '        @R@'],
        'pre+handle-tail': ['def pre: Int := k + 1', 'boomf() handle', '    zerr: Boom => @R@'],
        'def-handle-then-tail': ['def hv := boomf() handle', '    zerr: Boom => 0', '@R@'],
    }
    VALID = {'Int': '7', 'Float': '7.5', 'Str': '"v"', 'Bool': 'False', 'Base': 'Base(7)', 'Child': 'Child(7, 8)'}
    for rty in ('Int', 'Float', 'Str', 'Bool', 'Base', 'Child'):
        for fty, forms in FILLERS.items():
            fname, fsetup, expr = forms[0]
            conforms = is_sub(fty, rty)
            cat = category(fty, rty)
            for rc, lines in RET_CTX.items():
                if 'handle' in rc and rty != 'Int':
                    continue        # boomf() itself yields an Int (a Float function would meet the listed arms-of-different-subtypes finding)
                body = [l.replace('@R@', expr).replace('@V@', VALID[rty]) for l in lines]
                for holder in ('fun', 'method'):
                    if holder == 'fun':
                        top = [f'def retf(k: Int) -> {rty} =>'] + ind(body, 1)
                        main = ['def rr := retf(1)', 'print("done")']
                    else:
                        top = ['class RetC', f'    def retm(self, k: Int) -> {rty} =>'] + ind(body, 2)
                        main = ['def rr := RetC().retm(1)', 'print("done")']
                    src = PRELUDE + '\n' + '\n'.join(top) + '\n\n' + '\n'.join(main) + '\n'
                    out.append((f'return-{rty}<-{fty}@{holder}/{rc}', f'return:{cat}:{holder}/{rc}', src, conforms,
                                {'use': 'return', 'expected_type': rty, 'filler_type': fty, 'ctx': f'{holder}/{rc}', 'category': cat, 'rule': 'return'}))
    return out


# ====================================================================================== C06: null safety
C06_T = {
    # T: (valid value, second valid value, operand template using @H@ or None, receiver template or None)
    'Int': ('4', '5', 'print(@H@ + 1)', None),
    'Float': ('4.5', '5.5', 'print(@H@ * 2.0)', None),
    'Str': ('"v"', '"w"', 'print(@H@ + "s")', None),
    'Bool': ('True', 'False', 'print(@H@ and True)', None),
    'Base': ('Base(4)', 'Base(5)', None, 'print(@H@.get())'),
    '(Int, Str)': ('(4, "v")', '(5, "w")', None, None),
    'List[Int]': ('[4, 5]', '[6]', None, None),
}


def c06_prelude(T):
    v, v2, _, _ = C06_T[T]
    base = ('class Base(def bx: Int)\n    def get(self) -> Int => self.bx\n\nclass Child(bx: Int, def cy: Int): Base(bx)\n\n' if T == 'Base' else '')
    return base + f'''class FBox(def f: {T})
    def setf(self, a: {T}) -> Int => 1

class NBox(def nf: {T}?)
    def setn(self, a: {T}?) -> Int => 1

class Boom(msg: Str): Exception(msg)

def boomf() -> Int raise [Boom] =>
    raise Boom("b")
    0

def take(a: {T}) -> Int => 1
def taken(a: {T}?) -> Int => 1
def nret() -> {T}? => None
'''


def c06_cells():
    out = []
    for T, (v, v2, operand, receiver) in C06_T.items():
        pre = c06_prelude(T)
        # sources: (name, setup lines, expression, static type)
        sources = [
            ('none', [], 'None', 'None'),
            ('nvar-none', [f'def nv: {T}? := None'], 'nv', T + '?'),
            ('nvar-set', [f'def nv: {T}? := {v}'], 'nv', T + '?'),
            ('nfield', [f'def nb := NBox({v})'], 'nb.nf', T + '?'),
            ('ncall', [], 'nret()', T + '?'),
            ('qdefault', [f'def nv: {T}? := {v}'], f'(nv ? {v2})', T),
            ('plain', [], v2, T),
            ('plain-var', [f'def pv: {T} := {v2}'], 'pv', T),
        ]
        # the same name defined again, with the other nullability, in a scope that has ended before the use
        sources += [
            ('nvar-set+inner-nonnull-shadow', [f'def nv: {T}? := {v}', 'if 1 < 2 then', f'    def nv: {T} := {v2}', '    print("in")'], 'nv', T + '?'),
            ('plain-var+inner-nullable-shadow', [f'def pv: {T} := {v2}', 'if 1 < 2 then', f'    def pv: {T}? := None', '    print("in")'], 'pv', T),
            ('nvar-none+loop-nonnull-shadow', [f'def nv: {T}? := None', 'for zq in 0 .. 1 do', f'    def nv: {T} := {v2}', '    print("in")'], 'nv', T + '?'),
        ]
        # a conditional expression with a nullable branch is itself nullable
        sources += [
            ('ifx-none', [], f'(if 1 < 2 then {v2} else None)', T + '?'),
            ('ifx-nvar', [f'def nv: {T}? := {v}'], f'(if 1 < 2 then {v2} else nv)', T + '?'),
            ('ifx-plain', [f'def pv: {T} := {v}'], f'(if 1 < 2 then {v2} else pv)', T),
        ]
        SUB = {'Float': ('Int', '3'), 'Base': ('Child', 'Child(3, 4)')}
        if T in SUB:
            st, sv = SUB[T]
            sources += [
                ('sub-nvar-set', [f'def ns: {st}? := {sv}'], 'ns', st + '?'),
                ('sub-plain', [], sv, st),
                ('sub-qdefault', [f'def ns: {st}? := {sv}'], f'(ns ? {sv})', st),
            ]
        uses = [
            ('local', [], f'def u: {T} := @H@', T), ('local-nullable', [], f'def u: {T}? := @H@', T + '?'),
            ('reassign', [f'def u: {T} := {v}'], 'u := @H@', T), ('reassign-nullable', [f'def u: {T}? := {v}'], 'u := @H@', T + '?'),
            ('field', [f'def fb := FBox({v})'], 'fb.f := @H@', T), ('field-nullable', [f'def xb := NBox({v})'], 'xb.nf := @H@', T + '?'),
            ('arg', [], 'print(take(@H@))', T), ('arg-nullable', [], 'print(taken(@H@))', T + '?'),
            ('method-arg', [f'def fb := FBox({v})'], 'print(fb.setf(@H@))', T), ('method-arg-nullable', [f'def xb := NBox({v})'], 'print(xb.setn(@H@))', T + '?'),
            ('ctor', [], 'def uo := FBox(@H@)', T), ('ctor-nullable', [], 'def uo := NBox(@H@)', T + '?'),
        ]
        if operand:
            uses.append(('operand', [], operand, T))
        if receiver:
            uses.append(('receiver', [], receiver, T))
            uses.append(('receiver-field', [], 'print(@H@.bx)', T))
        for uname, usetup, stmt, ety in uses:
            for sname, ssetup, expr, sty in sources:
                if uname in ('operand', 'receiver', 'receiver-field') and sname in ('sub-plain', 'sub-qdefault'):
                    continue    # whether `3 * 2.0` is defined is not a nullability question
                if uname in ('operand', 'receiver', 'receiver-field') and sname.startswith('ifx-'):
                    continue    # a conditional expression as operand gets no type at all (language limit, see Appendix A)
                if sname.startswith('ifx-') and uname.startswith(('field', 'method-arg')) and (uname, sname) != ('field', 'ifx-plain'):
                    continue    # one representative of "member access in a later branch that contains a conditional expression" (listed finding) is enough
                must = is_sub(sty, ety)
                direction = ('null-into-nonnull' if not must else ('into-nullable' if ety.endswith('?') else 'nonnull-into-nonnull'))
                for ctx in CONTEXTS:
                    stmts = usetup + ssetup + [stmt.replace('@H@', expr)]
                    src = wrap(stmts, ctx).replace(PRELUDE, pre)
                    cid = f'{T}:{uname}<-{sname}@{ctx}'
                    # scope-reuse variants are judged in the group of their base source: where the base form is a listed finding the variant adds nothing
                    gid = f"{uname}:{sname.split('+')[0]}:{ctx}"
                    out.append((cid, gid, src, must, {'T': T, 'use': uname, 'source': sname, 'ctx': ctx, 'direction': direction}))
        # a later function re-uses the variable's name for a parameter / local of the other nullability (top level only)
        for uname, usetup, stmt, ety in uses:
            for sname, ssetup, expr, sty, rl in (
                    ('nvar-set+function-local-nonnull', [f'def nv: {T}? := {v}'], 'nv', T + '?', ['def shadowf() -> Int =>', f'    def nv: {T} := {v2}', '    1']),
                    ('nvar-none+function-param-nonnull', [f'def nv: {T}? := None'], 'nv', T + '?', [f'def shadowp(nv: {T}) -> Int => 1']),
                    ('plain-var+function-local-nullable', [f'def pv: {T} := {v2}'], 'pv', T, ['def shadowg() -> Int =>', f'    def pv: {T}? := None', '    1'])):
                must = is_sub(sty, ety)
                stmts = usetup + ssetup + rl + [stmt.replace('@H@', expr)]
                src = wrap(stmts, 'top').replace(PRELUDE, pre)
                out.append((f'{T}:{uname}<-{sname}@top', f"{uname}:{sname.split('+')[0]}:top", src, must, {'T': T, 'use': uname, 'source': sname, 'ctx': 'top',
                                                                                          'direction': 'null-into-nonnull' if not must else 'conforming'}))
        # returns
        for sname, ssetup, expr, sty in sources:
            for rty in (T, T + '?'):
                must = is_sub(sty, rty)
                for form, lines in (('tail', ['@R@']), ('return', ['return @R@']), ('if-return', ['if k > 0 then', '    return @R@', '@V@']),
                                    ('loop-return', ['for z in 0 .. k do', '    return @R@', '@V@']), ('while-return', ['while k > 5 do', '    return @R@', '@V@'])):
                    if rty.endswith('?') and (form in ('loop-return', 'while-return') or sname.startswith('ifx-')):
                        continue    # returns into T? from a nested block are a listed finding for every source: the added forms and sources look at returns into T
                    body = ssetup + [l.replace('@R@', expr).replace('@V@', v) for l in lines]
                    top = [f'def retf(k: Int) -> {rty} =>'] + ind(body, 1)
                    src = pre + '\n' + '\n'.join(top) + f'\n\ndef rr: {rty} := retf(1)\nprint("done")\n'
                    out.append((f'{T}:return{"-nullable" if rty.endswith("?") else ""}<-{sname}@{form}', f"return{'-nullable' if rty.endswith('?') else ''}:{sname.split('+')[0]}:{form}",
                                src, must, {'T': T, 'use': 'return', 'source': sname, 'ctx': 'fun/' + form}))
        # calls through a function-typed parameter: `def cuse(h: (P) -> Int, y: S) -> Int => h(y)`
        stys = sorted({sty for _, _, _, sty in sources if sty != 'None'})
        for pty in (T, T + '?'):
            for sty in stys:
                for form, body in (('direct', 'h(y)'), ('in-if', 'if 1 < 2 then h(y) else 0'), ('second-arg', 'h2(1, y)')):
                    if form == 'second-arg':
                        src = pre + f'\ndef cuse(h2: (Int, {pty}) -> Int, y: {sty}) -> Int => h2(1, y)\n\nprint("end")\n'
                    elif form == 'in-if':
                        src = pre + f'\ndef cuse(h: ({pty}) -> Int, y: {sty}) -> Int =>\n    if 1 < 2 then\n        return h(y)\n    0\n\nprint("end")\n'
                    else:
                        src = pre + f'\ndef cuse(h: ({pty}) -> Int, y: {sty}) -> Int => h(y)\n\nprint("end")\n'
                    out.append((f'{T}:callable-arg({pty})<-{sty}@{form}', f"callable-arg{'-nullable' if pty.endswith('?') else ''}:{'exact' if sty == pty else ('null-into-nonnull' if not is_sub(sty, pty) else 'conforming')}:{form}",
                                src, is_sub(sty, pty), {'T': T, 'use': 'callable-arg', 'source': sty, 'ctx': 'fun/' + form}))
        # `x ? d` written WITHOUT parentheses as right operand (the grammar of the pinned tree binds `?` tighter than the arithmetic operators)
        if T in ('Int', 'Float'):
            one_ = '1' if T == 'Int' else '1.5'
            for uname, stmt in (('local', f'def u: {T} := {one_} + nv ? {v2}'), ('arg', f'print(take({one_} * nv ? {v2}))'), ('reassign', f'def u: {T} := {v}\nu := {one_} + nv ? {v2}'),
                                ('compare', f'def ub: Bool := {one_} < nv ? {v2}')):
                for ctx in ('top', 'fun', 'loop'):
                    src = wrap([f'def nv: {T}? := None'] + stmt.split('\n'), ctx).replace(PRELUDE, pre)
                    out.append((f'{T}:{uname}<-qdefault-bare-right-operand@{ctx}', f'{uname}:qdefault-bare-right-operand:{ctx}', src, True,
                                {'T': T, 'use': uname, 'source': 'qdefault-bare-right-operand', 'ctx': ctx, 'direction': 'nonnull-into-nonnull'}))
        # nullable parameter used inside the function
        for uname, stmt, ety in (('local', f'def u: {T} := p', T), ('local-nullable', f'def u: {T}? := p', T + '?'), ('arg', 'print(take(p))', T), ('arg-nullable', 'print(taken(p))', T + '?'),
                                 ('qdefault', f'def u: {T} := p ? {v2}', T + '?')):
            must = is_sub(T + '?', ety)
            src = pre + f'\ndef usep(p: {T}?) -> Int =>\n    {stmt}\n    0\n\nprint(usep({v}))\n'
            out.append((f'{T}:{uname}<-nparam@fun', f'{uname}:nparam:fun', src, must, {'T': T, 'use': uname, 'source': 'nparam', 'ctx': 'fun'}))
    return out


# ====================================================================================== C07: immutability
C07_PRELUDE = '''class K(def fin cf: Int, def cm: Int)
    def fin bf: Int := 0
    def bm: Int := 0
    def set_bm(self, v: Int) -> Int =>
        self.bm := v
        v
    def look(fin self) -> Int => self.bm

class Boom(msg: Str): Exception(msg)

def boomf() -> Int raise [Boom] =>
    raise Boom("b")
    0
'''

ASSIGN_OPS = [(':=', '7'), ('+=', '1'), ('-=', '1'), ('*=', '2'), ('^=', '2'), ('<<=', '1'), ('>>=', '1')]

# where the assignment stands relative to the definition (statements; @A@ = the assignment)
NESTINGS = {
    'same-block': ['@A@'],
    'in-if': ['if 1 < 2 then', '    @A@'],
    'in-else': ['if 1 > 2 then', '    print("n")', 'else', '    @A@'],
    'in-for': ['for zi in 0 .. 2 do', '    @A@'],
    'in-while': ['def zw := 0', 'while zw < 1 do', '    @A@', '    zw := zw + 1'],
    'in-match-arm': ['match 1', '    1 =>', '        @A@', '    _ =>', '        print("n")'],
    'in-handle-arm': ['boomf() handle', '    zerr: Boom =>', '        @A@'],
    'nested-2': ['if 1 < 2 then', '    for zi in 0 .. 2 do', '        @A@'],
    'nested-3': ['for zi in 0 .. 2 do', '    if zi < 5 then', '        match zi', '            0 =>', '                @A@', '            _ =>', '                print("n")'],
}


def c07_cells():
    out = []
    P = C07_PRELUDE

    def add(cid, gid, stmts, ctx, must, meta, extra_top=()):
        src = wrap(stmts, ctx, extra_top).replace(PRELUDE, P)
        out.append((cid, gid, src, must, dict(meta, ctx=ctx)))

    CTX = ['top', 'fun', 'method', 'loop', 'then', 'arm', 'handle-arm']
    # local variable forms x fin x op x nesting
    forms = {
        'plain': 'def @F@x := 3', 'annotated': 'def @F@x: Int := 3', 'tuple': 'def @F@(x, xo) := (3, 4)',
        'nested-tuple': 'def @F@(xo, (x, xp)): (Int, (Int, Int)) := (3, (4, 5))', 'nested-tuple-first': 'def @F@((x, xp), xo): ((Int, Int), Int) := ((3, 4), 5)',
        'annotated-tuple': 'def @F@(xo, x): (Int, Int) := (3, 4)',
    }
    for form, tmpl in forms.items():
        for fin in (False, True):
            d = tmpl.replace('@F@', 'fin ' if fin else '')
            for op, val in ASSIGN_OPS:
                if op != ':=' and form in ('nested-tuple', 'nested-tuple-first', 'annotated-tuple'):
                    continue    # components of an annotated tuple pattern get no type: `x + 1` is not typable there, which is not a question of mutability
                for nest, lines in NESTINGS.items():
                    if op != ':=' and nest not in ('same-block', 'in-if', 'in-for', 'nested-2'):
                        continue
                    stmts = [d] + [l.replace('@A@', f'x {op} {val}') for l in lines]
                    for ctx in (CTX if (op == ':=' or nest == 'same-block') else ['top', 'fun']):
                        add(f'local-{form}{"-fin" if fin else ""}:{op}:{nest}@{ctx}', f"local-{form}:{'fin' if fin else 'mut'}:{op}:{nest}:{ctx}",
                            stmts, ctx, not fin, {'form': form, 'fin': fin, 'op': op, 'nest': nest})
    # a declaration with a type and no value on a line of its own, assigned later (twice)
    for fin in (False, True):
        for second in (':=', '+='):
            stmts = [f"def {'fin ' if fin else ''}x: Int", 'x := 7', f'x {second} 1']
            for ctx in ['top', 'fun', 'method', 'loop', 'then']:
                add(f'declared-without-value{"-fin" if fin else ""}:{second}@{ctx}', f"declared-without-value:{'fin' if fin else 'mut'}:{second}:{ctx}", stmts, ctx, None if not fin else False,
                    {'form': 'declared-without-value', 'fin': fin, 'op': second})
    # fields: class argument / body field, fin or not, through instance variable (fin or not), through self / fin self
    for fld, fin_field in (('cf', True), ('cm', False), ('bf', True), ('bm', False)):
        for recv_fin in (False, True):
            for op, val in ASSIGN_OPS[:3]:
                for nest in ('same-block', 'in-if', 'in-for', 'nested-2'):
                    stmts = [f"def {'fin ' if recv_fin else ''}ko := K(1, 2)"] + [l.replace('@A@', f'ko.{fld} {op} {val}') for l in NESTINGS[nest]]
                    must = not fin_field and not recv_fin
                    for ctx in CTX:
                        add(f'field-{fld}{"-finrecv" if recv_fin else ""}:{op}:{nest}@{ctx}',
                            f"field:{'finfield' if fin_field else 'mutfield'}:{'finrecv' if recv_fin else 'mutrecv'}:{'classarg' if fld[0] == 'c' else 'body'}:{op}:{ctx}",
                            stmts, ctx, must, {'field': fld, 'fin_field': fin_field, 'fin_receiver': recv_fin, 'op': op, 'nest': nest})
    # through self in a method
    for fld, fin_field in (('cf', True), ('cm', False), ('bf', True), ('bm', False)):
        for self_kind in ('self', 'fin self'):
            for op, val in ASSIGN_OPS[:2]:
                for nest in ('same-block', 'in-if', 'in-for'):
                    body = [l.replace('@A@', f'self.{fld} {op} {val}') for l in NESTINGS[nest]] + ['0']
                    top = [f'class M(def fin cf: Int, def cm: Int)', '    def fin bf: Int := 0', '    def bm: Int := 0', f'    def poke({self_kind}) -> Int =>'] + ind(body, 2)
                    src = P + '\n' + '\n'.join(top) + '\n\ndef mo := M(1, 2)\nprint(mo.poke())\n'
                    must = not fin_field and self_kind == 'self'
                    out.append((f'self-{fld}:{self_kind}:{op}:{nest}', f"self:{'finfield' if fin_field else 'mutfield'}:{self_kind.replace(' ', '-')}:{op}:{nest}", src, must,
                                {'field': fld, 'fin_field': fin_field, 'self': self_kind, 'op': op, 'ctx': 'method/' + nest}))
    # parameters
    for fin in (False, True):
        for op, val in ASSIGN_OPS[:3]:
            for nest in ('same-block', 'in-if', 'in-for', 'in-match-arm'):
                body = [l.replace('@A@', f'p {op} {val}') for l in NESTINGS[nest]] + ['p']
                for holder in ('fun', 'method'):
                    if holder == 'fun':
                        top = [f"def pf({'fin ' if fin else ''}p: Int) -> Int =>"] + ind(body, 1)
                        main = ['print(pf(1))']
                    else:
                        top = ['class PM', f"    def pm(self, {'fin ' if fin else ''}p: Int) -> Int =>"] + ind(body, 2)
                        main = ['print(PM().pm(1))']
                    src = P + '\n' + '\n'.join(top) + '\n\n' + '\n'.join(main) + '\n'
                    out.append((f'param{"-fin" if fin else ""}:{op}:{nest}@{holder}', f"param:{'fin' if fin else 'mut'}:{op}:{holder}/{nest}", src, not fin,
                                {'form': 'param', 'fin': fin, 'op': op, 'ctx': f'{holder}/{nest}'}))
    # never defined
    for op, val in ASSIGN_OPS[:3]:
        for nest in NESTINGS:
            stmts = [l.replace('@A@', f'nope {op} {val}') for l in NESTINGS[nest]]
            for ctx in CTX:
                add(f'undefined:{op}:{nest}@{ctx}', f'undefined:{op}:{nest}:{ctx}', stmts, ctx, False, {'form': 'undefined', 'op': op, 'nest': nest})
    # assignment in another function than the definition (the name is not visible there)
    for fin in (False, True):
        top = ['def other() -> Int =>', '    gx := 5', '    0']
        src = P + f"\ndef {'fin ' if fin else ''}gx := 1\n" + '\n'.join(top) + '\n\nprint(other())\n'
        out.append((f'other-function{"-fin" if fin else ""}', f"other-function:{'fin' if fin else 'mut'}", src, False if fin else None,
                    {'form': 'other-function', 'fin': fin, 'ctx': 'fun'}))
    # shadowing re-definitions that flip mutability
    SH = [('fin-then-mut', ['def fin x := 1', 'def x := 2'], True), ('mut-then-fin', ['def x := 1', 'def fin x := 2'], False),
          ('fin-mut-fin', ['def fin x := 1', 'def x := 2', 'def fin x := 3'], False), ('mut-fin-mut', ['def x := 1', 'def fin x := 2', 'def x := 3'], True),
          ('fin-then-mut-other-type', ['def fin x := "s"', 'def x := 2'], True), ('mut-then-fin-other-type', ['def x := "s"', 'def fin x := 2'], False)]
    for name, defs, must in SH:
        for nest in ('same-block', 'in-if', 'in-for', 'nested-2'):
            stmts = defs + [l.replace('@A@', 'x := 9') for l in NESTINGS[nest]]
            for ctx in CTX:
                add(f'shadow-{name}:{nest}@{ctx}', f'shadow:{name}:{nest}:{ctx}', stmts, ctx, must, {'form': 'shadow', 'shadow': name, 'nest': nest})
    # a shadowing definition inside a nested block ends with that block: the assignment after it sees the outer one
    INNER = {
        'then-no-else': ['if 1 < 2 then', '    @D@', '    print("i")'],
        'then-with-else': ['if 1 < 2 then', '    @D@', '    print("i")', 'else', '    print("e")'],
        'else': ['if 1 > 2 then', '    print("t")', 'else', '    @D@', '    print("i")'],
        'both-branches': ['if 1 < 2 then', '    @D@', '    print("i")', 'else', '    @D@', '    print("j")'],
        'for-body': ['for zi in 0 .. 2 do', '    @D@', '    print("i")'],
        'while-body': ['def zw := 0', 'while zw < 1 do', '    @D@', '    zw := zw + 1'],
        'match-arm': ['match 1', '    1 =>', '        @D@', '        print("i")', '    _ =>', '        print("n")'],
        'handle-arm': ['boomf() handle', '    zerr: Boom =>', '        @D@', '        print("i")'],
        'nested-2': ['for zi in 0 .. 2 do', '    if zi < 5 then', '        @D@', '        print("i")'],
    }
    for iname, lines in INNER.items():
        for outer, inner, must in (('def fin x := 1', 'def x := 5', False), ('def x := 1', 'def fin x := 5', True), (None, 'def x := 5', False), (None, 'def fin x := 5', False)):
            for op, val in ASSIGN_OPS[:2]:
                stmts = ([outer] if outer else []) + [l.replace('@D@', inner) for l in lines] + [f'x {op} {val}']
                oname = 'outer-fin-inner-mut' if outer == 'def fin x := 1' else ('outer-mut-inner-fin' if outer else ('inner-only-mut' if 'fin' not in inner else 'inner-only-fin'))
                for ctx in ['top', 'fun', 'method', 'loop']:
                    add(f'scope-{oname}:{iname}:{op}@{ctx}', f'scope:{oname}:{iname}:{op}:{ctx}', stmts, ctx, must, {'form': 'scope', 'inner': iname, 'outer': oname, 'op': op})
    # parameters of a body-less declaration, of another function, of a lambda: not assignable afterwards
    DECLS = {
        'bodyless-function': ['def area(x: Int, wid: Int) -> Int'],
        'function-with-body': ['def area(x: Int, wid: Int) -> Int => wid'],
        'lambda': ['def lam := \\x: Int => x + 1'],
        'for-variable': ['for x in 0 .. 2 do', '    print("b")'],
        'match-binder': ['match 1', '    x =>', '        print("b")'],
        'comprehension': ['def zl := [x | x in 0 .. 3]'],
        'comprehension-statement': ['[x | x in [1, 2, 3]]'],
        'set-comprehension-statement': ['{x | x in [1, 2, 3]}'],
        'dict-comprehension-statement': ['{x => x | x in [1, 2, 3]}'],
        'comprehension-match-subject': ['match [x | x in [1, 2, 3]]', '    other => print("m")'],
    }
    for dname, dl in DECLS.items():
        for outer, must in (('def fin x := 1', False), (None, False), ('def x := 1', True)):
            stmts = ([outer] if outer else []) + dl + ['x := 9']
            oname = 'outer-fin' if outer == 'def fin x := 1' else ('outer-mut' if outer else 'no-outer')
            for ctx in ['top', 'fun']:
                if dname in ('bodyless-function', 'function-with-body') and ctx != 'top':
                    continue
                add(f'leak-{dname}:{oname}@{ctx}', f'leak:{dname}:{oname}:{ctx}', stmts, ctx, must, {'form': 'leak', 'decl': dname, 'outer': oname})
    # class variant: parameter of an abstract method is not a local of the next method
    for outer in ('abstract-then-method',):
        src = P + '\ntype Sh\n    def g(self, x: Int) -> Int\n\nclass Sq: Sh\n    def g(self, x: Int) -> Int => x\n    def h(self) -> Int =>\n        x := 3\n        0\n\nprint("end")\n'
        out.append(('leak-abstract-method-param', 'leak:abstract-method-param', src, False, {'form': 'leak', 'ctx': 'method'}))
        src = P + '\nclass Sq2\n    def g(self, x: Int) -> Int\n    def h(self) -> Int =>\n        x := 3\n        0\n\nprint("end")\n'
        out.append(('leak-bodyless-method-param', 'leak:bodyless-method-param', src, False, {'form': 'leak', 'ctx': 'method'}))
    return [c for c in out if c[3] is not None]


# ====================================================================================== C08: raises declared or handled
C08_PARENT = {'E1': 'Exception', 'E2': 'E1', 'E3': 'Exception', 'E4': 'E2', 'Exception': None}


def c08_anc(c):
    out = []
    while c:
        out.append(c)
        c = C08_PARENT.get(c)
    return out


def c08_prelude(K):
    return f'''class E1(msg: Str): Exception(msg)
class E2(msg: Str): E1(msg)
class E3(msg: Str): Exception(msg)
class E4(msg: Str): E2(msg)
class NotExc(def nx: Int)

class Boom(msg: Str): Exception(msg)

def boomf() -> Int raise [Boom] =>
    raise Boom("b")
    0

class Src
    def mraise(self, k: Int) -> Int raise [{K}] =>
        if k > 0 then
            raise {K}("m")
        k

def fraise(k: Int) -> Int raise [{K}] =>
    if k > 0 then
        raise {K}("m")
    k
'''


def c08_subsets():
    import itertools
    base = ['E1', 'E2', 'E3', 'Exception']
    out = [()]
    for n in (1, 2):
        out += list(itertools.combinations(base, n))
    return out


def c08_cells(slice_mod=None, slice_seed=0):
    out = []
    SOURCES = {'raise-stmt': 'raise @K@("m")', 'call': 'fraise(k)', 'method-call': 'Src().mraise(k)'}
    subsets = c08_subsets()
    idx = 0
    for K in ('E1', 'E2', 'E3', 'E4'):
        pre = c08_prelude(K)
        for sname, sexpr in SOURCES.items():
            sexpr = sexpr.replace('@K@', K)
            for D in subsets:
                for H in subsets:
                    for pos in ('plain', 'init', 'in-if', 'in-loop', 'in-match-arm', 'in-outer-handle-arm', 'in-own-handle-arm'):
                        if pos == 'init' and sname == 'raise-stmt':
                            continue
                        if pos == 'in-own-handle-arm' and not H:
                            continue
                        idx += 1
                        if slice_mod and (idx * 2654435761 + slice_seed) % slice_mod != 0:
                            continue
                        # the subject statement (with its handle, if any)
                        if pos == 'init':
                            core = [f'def r := {sexpr}' + (' handle' if H else '')] + [f'    e{i}: {h} => 0' for i, h in enumerate(H)]
                        elif pos == 'in-own-handle-arm':
                            # the raise source stands in an ARM of a handle for H: arms are not protected by their own handle
                            core = ['boomf() handle', '    eb: Boom => print("b")'] if False else []
                            core = ['fraise(0) handle'] if sname != 'x' else []
                            core = ['boomf() handle'] + [f'    e{i}: {h} =>\n            {sexpr}' for i, h in enumerate(H)] + ['    eb: Boom => print("b")']
                        else:
                            core = [sexpr + (' handle' if H else '')] + [f'    e{i}: {h} => print("h{i}")' for i, h in enumerate(H)]
                        if pos in ('plain', 'init', 'in-own-handle-arm'):
                            body = core
                        elif pos == 'in-if':
                            body = ['if k > 1 then'] + ind(core, 1)
                        elif pos == 'in-loop':
                            body = ['for z in 0 .. k do'] + ind(core, 1)
                        elif pos == 'in-match-arm':
                            body = ['match k', '    1 =>'] + ind(core, 2) + ['    _ =>', '        print("o")']
                        elif pos == 'in-outer-handle-arm':
                            body = ['boomf() handle', '    eb: Boom =>'] + ind(core, 2)
                        decl = f" raise [{', '.join(D)}]" if D else ''
                        # declared Boom where the wrapper needs it
                        top = [f'def subject(k: Int) -> Int{decl} =>'] + ind(body + ['0'], 1)
                        src = pre + '\n' + '\n'.join(top) + '\n\nprint("end")\n'
                        protected = set(D) | (set(H) if pos != 'in-own-handle-arm' else set())
                        must = any(a in protected for a in c08_anc(K))
                        dcat = 'none' if not D else ('self' if K in D else ('ancestor' if any(a in D for a in c08_anc(K)) else 'unrelated'))
                        hcat = 'none' if not H else ('self' if K in H else ('ancestor' if any(a in H for a in c08_anc(K)) else 'unrelated'))
                        gid = f'{sname}:declared-{dcat}:handled-{hcat}:{pos}'
                        out.append((f"{K}:{sname}:D={'+'.join(D) or '-'}:H={'+'.join(H) or '-'}@{pos}", gid, src, must,
                                    {'raised': K, 'source': sname, 'declared': D, 'handled': H, 'ctx': pos}))
    # callees that declare TWO exceptions: every one of them must be covered
    for K, K2 in (('E1', 'E3'), ('E2', 'E3'), ('E3', 'E2'), ('E4', 'E3')):
        pre = c08_prelude(K) + f"""
def fraise2(k: Int) -> Int raise [{K}, {K2}] =>
    if k > 0 then
        raise {K}("m")
    if k < 0 then
        raise {K2}("n")
    k
"""
        for D in subsets:
            for H in subsets:
                for pos in ('plain', 'in-if', 'init'):
                    if pos == 'init':
                        core = ['def r := fraise2(k)' + (' handle' if H else '')] + [f'    e{i}: {h} => 0' for i, h in enumerate(H)]
                    else:
                        core = ['fraise2(k)' + (' handle' if H else '')] + [f'    e{i}: {h} => print("h{i}")' for i, h in enumerate(H)]
                    body = core if pos != 'in-if' else ['if k > 1 then'] + ind(core, 1)
                    decl = f" raise [{', '.join(D)}]" if D else ''
                    top = [f'def subject(k: Int) -> Int{decl} =>'] + ind(body + ['0'], 1)
                    src = pre + '\n' + '\n'.join(top) + '\n\nprint("end")\n'
                    prot = set(D) | set(H)
                    c1 = any(a in prot for a in c08_anc(K)); c2 = any(a in prot for a in c08_anc(K2))
                    cov = 'both' if c1 and c2 else ('first-only' if c1 else ('second-only' if c2 else 'neither'))
                    out.append((f"{K}+{K2}:call-2:D={'+'.join(D) or '-'}:H={'+'.join(H) or '-'}@{pos}", f'call-2:covered-{cov}:{pos}', src, c1 and c2,
                                {'raised': [K, K2], 'source': 'call-2', 'declared': D, 'handled': H, 'ctx': pos}))
    # after a handle the protection must end; a second, unhandled call is rejected
    for K in ('E1', 'E2'):
        pre = c08_prelude(K)
        for pos, lines in (('after-handle-same-block', ['fraise(k) handle', '    e: E1 => print("h")', 'fraise(k)']),
                           ('after-handle-in-if', ['if k > 1 then', '    fraise(k) handle', '        e: E1 => print("h")', 'fraise(k)']),
                           ('after-handle-def', ['def r := fraise(k) handle', '    e: E1 => 0', 'def s := fraise(k)']),
                           ('before-handle', ['fraise(k)', 'fraise(k) handle', '    e: E1 => print("h")'])):
            top = ['def subject(k: Int) -> Int =>'] + ind(lines + ['0'], 1)
            out.append((f'{K}:{pos}', f'scope:{pos}', pre + '\n' + '\n'.join(top) + '\n\nprint("end")\n', False, {'raised': K, 'ctx': pos, 'source': 'call'}))
        top = ['def subject(k: Int) -> Int =>'] + ind(['fraise(k) handle', '    e: E1 => print("h")', 'fraise(k) handle', '    e: E1 => print("h2")', '0'], 1)
        out.append((f'{K}:two-handles', 'scope:two-handles', pre + '\n' + '\n'.join(top) + '\n\nprint("end")\n', True, {'raised': K, 'ctx': 'two-handles', 'source': 'call'}))
    # exception classes with TWO parents: every ancestor along either parent protects
    MP = 'class Tag\nclass Aux\nclass E5(msg: Str): E1(msg), Tag\nclass E6(msg: Str): Aux, E3(msg)\nclass E7(msg: Str): E5(msg), Aux\n'
    for K, anc in (('E5', ['E5', 'E1', 'Exception']), ('E6', ['E6', 'E3', 'Exception']), ('E7', ['E7', 'E5', 'E1', 'Exception'])):
        for how in ('handled', 'declared'):
            for prot in ('E1', 'E2', 'E3', 'E5', 'Exception'):
                must = prot in anc
                if how == 'handled':
                    body = [f'raise {K}("m")' + ' handle' if False else f'fraisek(k) handle', f'    e0: {prot} => print("h")']
                    decl = ''
                else:
                    body = ['fraisek(k)']; decl = f' raise [{prot}]'
                src = (c08_prelude('E1') + MP + f'def fraisek(k: Int) -> Int raise [{K}] =>\n    if k > 0 then\n        raise {K}("m")\n    k\n\n'
                       + f'def subject(k: Int) -> Int{decl} =>\n' + '\n'.join(ind(body + ['0'], 1)) + '\n\nprint("end")\n')
                out.append((f'{K}:two-parents:{how}-by-{prot}', f"two-parents:{how}:{'covered' if must else 'uncovered'}", src, must, {'raised': K, 'ctx': 'two-parents', 'source': 'call', how: prot}))
    # a class local to a function: statements of its body run when the function runs
    for decl, must in (('', False), (' raise [E1]', True)):
        src = c08_prelude('E1') + f'def subject(k: Int) -> Int{decl} =>\n    class Local\n        def z: Int := fraise(0)\n    k\n\nprint("end")\n'
        out.append((f"local-class-field-initialiser:{'declared' if must else 'unprotected'}", f"local-class:{'declared' if must else 'unprotected'}", src, must, {'raised': 'E1', 'ctx': 'local-class', 'source': 'call'}))
    # only subclasses of Exception may be declared
    for bad, must in (('NotExc', False), ('Int', False), ('Str', False), ('E1', True), ('Exception', True), ('Boom', True)):
        pre = c08_prelude('E1')
        src = pre + f'\ndef subject(k: Int) -> Int raise [{bad}] =>\n    k\n\nprint("end")\n'
        out.append((f'declare:{bad}', f"declare:{'exception-class' if must else 'not-an-exception'}", src, must, {'ctx': 'declare', 'declared': bad}))
    return out


# ====================================================================================== C09: definite assignment
C09_PRELUDE = '''class Boom(msg: Str): Exception(msg)

def boomf() -> Int raise [Boom] =>
    raise Boom("b")
    0

def fi(a: Int) -> Int => a + 1
'''

USE_FORMS = {'print': 'print(@X@)', 'init': 'def uy := @X@ + 1', 'arg': 'print(fi(@X@))', 'cond': 'if @X@ > 0 then print("p")', 'fstr': 'print("v{@X@}")'}


def c09_cells():
    out = []
    P = C09_PRELUDE
    CTX = ['top', 'fun', 'method', 'loop', 'then', 'arm', 'handle-arm']
    # (name, lines with @U@ = the use, must accept)
    PLACEMENTS = [
        ('never', ['@U@'], False),
        ('before', ['def x := 1', '@U@'], True),
        ('before-annotated', ['def x: Int := 1', '@U@'], True),
        ('later-same-block', ['@U@', 'def x := 1'], False),
        ('only-then', ['if 1 < 2 then', '    def x := 1', '@U@'], False),
        ('only-else', ['if 1 > 2 then', '    print("n")', 'else', '    def x := 1', '@U@'], False),
        ('both-branches', ['if 1 < 2 then', '    def x := 1', 'else', '    def x := 2', '@U@'], True),
        ('one-match-arm', ['match 1', '    1 =>', '        def x := 1', '    _ =>', '        print("n")', '@U@'], False),
        ('all-match-arms', ['match 1', '    1 =>', '        def x := 1', '    _ =>', '        def x := 2', '@U@'], True),
        ('loop-body-then-after', ['for zi in 0 .. 2 do', '    def x := 1', '@U@'], False),
        ('while-body-then-after', ['def zw := 0', 'while zw < 1 do', '    def x := 1', '    zw := zw + 1', '@U@'], False),
        ('for-variable-after', ['for x in 0 .. 2 do', '    print("b")', '@U@'], False),
        ('match-binder-after', ['match 1', '    x =>', '        print("b")', '@U@'], False),
        ('match-binder-other-arm', ['match 5', '    0 =>', '        print("z")', '    x =>', '        print("b")', '    _ =>', '        @U@'], False),
        ('match-binder-inside', ['match 1', '    x =>', '        @U@'], True),
        ('for-variable-inside', ['for x in 0 .. 2 do', '    @U@'], True),
        ('handle-arm-def-after', ['boomf() handle', '    zerr: Boom =>', '        def x := 1', '@U@'], False),
        ('handle-var-inside', ['boomf() handle', '    zerr: Boom =>', '        print("h")'], True),
        ('comprehension-var-after', ['def zl := [x | x in 0 .. 3]', '@U@'], False),
        ('dict-comprehension-stmt-var-after', ['def zl := [1, 2, 3]', '{ x => x * 2 | x in zl }', '@U@'], False),
        ('set-comprehension-stmt-var-after', ['def zl := [1, 2, 3]', '{ x * 2 | x in zl }', '@U@'], False),
        ('list-comprehension-stmt-var-after', ['def zl := [1, 2, 3]', '[ x * 2 | x in zl ]', '@U@'], False),
        ('dict-comprehension-def-var-after', ['def zl := [1, 2, 3]', 'def zd := { x => x * 2 | x in zl }', '@U@'], False),
        ('set-comprehension-def-var-after', ['def zl := [1, 2, 3]', 'def zd := { x * 2 | x in zl }', '@U@'], False),
        ('dict-comprehension-match-subject', ['def zl := [1, 2, 3]', 'match { x => x * 2 | x in zl }', '    other =>', '        @U@'], False),
        ('list-comprehension-match-subject', ['def zl := [1, 2, 3]', 'match [ x * 2 | x in zl ]', '    other =>', '        @U@'], False),
        ('comprehension-in-argument-var-after', ['def zl := [1, 2, 3]', 'print([ x * 2 | x in zl ])', '@U@'], False),
        # the same with the defining path NOT taken at run time (C04 executes whatever is accepted: NameError / UnboundLocalError)
        ('only-then-not-taken', ['if 1 > 2 then', '    def x := 1', '@U@'], False),
        ('only-else-not-taken', ['if 1 < 2 then', '    print("n")', 'else', '    def x := 1', '@U@'], False),
        ('one-match-arm-not-taken', ['match 2', '    1 =>', '        def x := 1', '    _ =>', '        print("n")', '@U@'], False),
        ('loop-body-zero-iterations-then-after', ['for zi in 0 .. 0 do', '    def x := 1', '@U@'], False),
        ('while-body-never-then-after', ['def zw := 5', 'while zw < 1 do', '    def x := 1', '    zw := zw + 1', '@U@'], False),
        ('handle-arm-def-not-raised-after', ['fi(1) handle', '    zerr: Boom =>', '        def x := 1', '@U@'], False),
        ('only-then-no-else-nested', ['if 1 < 2 then', '    if 2 < 3 then', '        def x := 1', '@U@'], False),
        ('only-then-attached', ['if 1 < 2 then def x := 1', '@U@'], False),
        ('inner-block-def-used-inner', ['if 1 < 2 then', '    def x := 1', '    @U@'], True),
        ('outer-def-used-inner-2', ['def x := 1', 'if 1 < 2 then', '    for zi in 0 .. 2 do', '        @U@'], True),
        ('outer-def-used-inner-3', ['def x := 1', 'for zi in 0 .. 2 do', '    if zi < 5 then', '        match zi', '            0 =>', '                @U@', '            _ =>', '                print("n")'], True),
        ('shadow-same-type', ['def x := 1', 'def x := 2', '@U@'], True),
        ('shadow-other-type-then-int-use', ['def x := "s"', 'def x := 2', '@U@'], True),
        ('shadow-in-branch-only', ['if 1 < 2 then', '    def x := 1', '    def x := 2', '@U@'], False),
        ('defined-after-use-in-branch', ['if 1 < 2 then', '    @U@', 'def x := 1'], False),
        ('tuple-def', ['def (x, xo) := (1, 2)', '@U@'], True),
        ('tuple-def-later', ['@U@', 'def (x, xo) := (1, 2)'], False),
        ('self-reference-in-init', ['def x := x + 1'], False),
    ]
    # every expression position reads the name: further use forms on the placements that are not touched by a listed finding
    MORE_USES = {'range-step': 'for zr in 0 .. 4 .. @X@ do print(zr)', 'range-bound': 'for zr in 0 .. @X@ do print(zr)', 'range-start-inclusive': 'for zr in @X@ ..= 3 do print(zr)',
                 'slice-bound': 'print([1, 2, 3, 4][0 :: @X@])', 'index': 'print([1, 2, 3][@X@])', 'while-condition': 'while @X@ > 5 do print("w")', 'match-subject': 'match @X@\n    1 => print("a")\n    _ => print("b")',
                 'right-operand': 'print(1 + @X@)', 'list-element': 'def ul := [@X@, 2]', 'tuple-element': 'def ut := (@X@, 2)', 'nested-call-argument': 'print(fi(fi(@X@)))', 'interpolated-operand': 'print("v{@X@ + 1}")',
                 'reassigned-value': 'def ur := 0\nur := @X@', 'augmented-value': 'def ur := 0\nur += @X@', 'conditional-branch': 'def uz: Int := if 1 < 2 then @X@ else 0', 'conditional-condition': 'def uz: Int := if @X@ > 1 then 1 else 0',
                 'comparison': 'print(@X@ = 1)', 'unary': 'def un: Int := -@X@', 'default-operand': 'def ud: Int := None ? @X@', 'raise-argument-free-handle-value': 'def uh := boomf() handle\n    zerr: Boom => @X@',
                 'comprehension-source-bound': 'def uc := [zc | zc in 0 .. @X@]', 'comprehension-condition': 'def uc := [zc | zc in 0 .. 3, zc < @X@]', 'dict-value': 'def ud := {1 => @X@}', 'set-element': 'def us := {@X@, 2}'}
    MORE_PLACEMENTS = ('never', 'before', 'later-same-block', 'only-then', 'only-then-not-taken', 'for-variable-after', 'comprehension-var-after', 'one-match-arm', 'loop-body-then-after')
    for pname, lines, must in PLACEMENTS:
        if pname not in MORE_PLACEMENTS:
            continue
        for uname, uform in MORE_USES.items():
            body = []
            for l in lines:
                if '@U@' in l:
                    indent = l[:len(l) - len(l.lstrip(' '))]
                    body += [indent + x for x in uform.replace('@X@', 'x').split('\n')]
                else:
                    body.append(l)
            for ctx in ('top', 'fun', 'loop'):
                src = wrap(body, ctx).replace(PRELUDE, P)
                out.append((f'{pname}:{uname}@{ctx}', f'{pname}:{uname}:{ctx}', src, must, {'placement': pname, 'use': uname, 'ctx': ctx}))
    for pname, lines, must in PLACEMENTS:
        for uname, uform in USE_FORMS.items():
            if '@U@' not in '\n'.join(lines) and uname != 'print':
                continue
            stmts = [l.replace('@U@', uform.replace('@X@', 'x')) for l in lines]
            for ctx in CTX:
                src = wrap(stmts, ctx).replace(PRELUDE, P)
                out.append((f'{pname}:{uname}@{ctx}', f'{pname}:{uname}:{ctx}', src, must, {'placement': pname, 'use': uname, 'ctx': ctx}))
    # parameters outside their function; a function's local outside
    out.append(('param-outside', 'param-outside:top', P + '\ndef pf(pp: Int) -> Int => pp\nprint(pp)\n', False, {'placement': 'param-outside', 'ctx': 'top'}))
    out.append(('local-of-function-outside', 'local-outside:top', P + '\ndef pf() -> Int =>\n    def loc := 1\n    loc\nprint(loc)\n', False, {'placement': 'local-outside', 'ctx': 'top'}))
    # top-level functions and classes used above their definition (the statement: "defined only later" => rejected)
    out.append(('function-used-before-def', 'forward:function:top', P + '\nprint(later(1))\ndef later(a: Int) -> Int => a\n', False, {'placement': 'forward-function', 'ctx': 'top'}))
    out.append(('class-used-before-def', 'forward:class:top', P + '\ndef fo := Later()\nclass Later\n    def v: Int := 1\nprint(fo.v)\n', False, {'placement': 'forward-class', 'ctx': 'top'}))
    out.append(('function-used-after-def', 'backward:function:top', P + '\ndef earlier(a: Int) -> Int => a\nprint(earlier(1))\n', True, {'placement': 'backward-function', 'ctx': 'top'}))
    out.append(('function-calls-later-function-inside-body', 'forward:in-body:top', P + '\ndef fa(a: Int) -> Int => fb2(a)\ndef fb2(a: Int) -> Int => a\nprint(fa(1))\n', True,
                {'placement': 'forward-in-body', 'ctx': 'top'}))
    # fields in an explicit constructor
    CTOR = [
        ('read-after-assign', ['self.x := a', 'self.y := self.x + 1'], True),
        ('read-before-assign', ['self.y := self.x + 1', 'self.x := a'], False),
        ('read-never-assigned', ['self.y := self.x + 1'], False),
        ('print-before-assign', ['print(self.x)', 'self.x := a', 'self.y := a'], False),
        ('assign-in-one-branch-then-read', ['if a > 0 then', '    self.x := a', 'self.y := self.x'], False),
        ('assign-in-both-branches-then-read', ['if a > 0 then', '    self.x := a', 'else', '    self.x := 0', 'self.y := self.x'], True),
        ('assign-in-match-arm-then-read', ['match a', '    1 =>', '        self.x := a', '    _ =>', '        print("n")', 'self.y := self.x'], False),
        ('aug-before-assign', ['self.x += a', 'self.x := a', 'self.y := a'], False),
        ('aug-sub-before-assign', ['self.y := a', 'self.x -= 1', 'self.x := a'], False),
        ('aug-after-assign', ['self.x := a', 'self.x += a', 'self.y := a'], True),
        ('aug-in-branch-before-assign', ['if a > 0 then', '    self.x *= 2', 'self.x := a', 'self.y := a'], False),
        ('read-in-argument-before-assign', ['self.y := fi(self.x)', 'self.x := a'], False),
        ('read-in-condition-before-assign', ['if self.x > 0 then', '    print("p")', 'self.x := a', 'self.y := a'], False),
        ('read-other-field-after-its-assign', ['self.y := a', 'self.x := self.y + 1'], True),
        ('missing-field-assignment', ['self.x := a'], False),
        ('all-assigned', ['self.x := a', 'self.y := a'], True),
    ]
    # a child that declares a field under the name of a parent's field has to assign it itself before reading it
    INH = [
        ('child-redeclared-read-before-assign', ['print(self.count)', 'self.count := 2'], False),
        ('child-redeclared-assign-then-read', ['self.count := 2', 'print(self.count)'], True),
        ('child-redeclared-read-in-expression-before-assign', ['self.count := self.count + 1'], False),
        ('child-own-field-read-before-assign', ['print(self.extra)', 'self.extra := 2', 'self.count := 3'], False),
        ('child-own-field-assign-then-read', ['self.extra := 2', 'self.count := 3', 'print(self.extra)'], True),
    ]
    # a field that holds an object: assigning THROUGH it does not assign it
    THRU = [('assign-through-unassigned-field', ['self.inner.val := a', 'self.inner := Inner(a)'], False), ('assign-through-never-assigned-field', ['self.inner.val := a'], False),
            ('assign-field-then-through', ['self.inner := Inner(a)', 'self.inner.val := a + 1'], True), ('read-through-unassigned-field', ['print(self.inner.val)', 'self.inner := Inner(a)'], False)]
    for cname, body, must in THRU:
        src = (P + '\nclass Inner(def val: Int)\n\nclass Outer\n    def inner: Inner\n    def __init__(self, a: Int) =>\n' + '\n'.join(ind(body, 2)) + '\n\ndef po := Outer(3)\nprint("end")\n')
        out.append((f'ctor-through:{cname}', f'ctor-through:{cname}', src, must, {'placement': 'ctor-through:' + cname, 'ctx': 'ctor'}))
    for cname, body, must in INH:
        src = (P + '\nclass PBase\n    def count: Int\n    def __init__(self) =>\n        self.count := 1\n\nclass PChild: PBase\n    def count: Int\n    def extra: Int\n'
               '    def __init__(self) =>\n' + '\n'.join(ind(body if 'extra' in ' '.join(body) else body + ['self.extra := 0'], 2)) + '\n\ndef po := PChild()\nprint("end")\n')
        out.append((f'ctor-inherit:{cname}', f'ctor-inherit:{cname}', src, must, {'placement': 'ctor-inherit:' + cname, 'ctx': 'ctor'}))
    for cname, body, must in CTOR:
        src = P + '\nclass Pt\n    def x: Int\n    def y: Int\n    def __init__(self, a: Int) =>\n' + '\n'.join(ind(body, 2)) + '\n\ndef po := Pt(3)\nprint("end")\n'
        out.append((f'ctor:{cname}', f'ctor:{cname}', src, must, {'placement': 'ctor:' + cname, 'ctx': 'ctor'}))
    return out
