"""C12 — determinism: verdict and emitted bytes depend on the input alone.

Oracle: equality of verdicts / byte equality of Ok payloads across K sequential calls in one process (fresh
hash seeds per container instance), T concurrent threads, a run after a *conflicting* earlier workload in
the same process (same class names, different relations: what a process-wide cache would confuse), and
P fresh processes. Workload biased to what iterates hash containers."""
import json, os, re
from . import common, gen, lang
from .common import Partial, Report, Worker, rng, run_shards

PROP = 'C12'


# ------------------------------------------------------------------------------------ workload
def hashy_program(r):
    """Mamba text exercising hash-ordered internals: interleaved class members, several parents, unions of
    2-4 types (also same-named generics), several exceptions, multi-member raise lists."""
    L = []
    # a user import of a name that a built-in (generic) class has: an import registers a stand-in class of that name
    if r.random() < 0.3:
        L.append(r.choice(['from typing import List', 'from typing import Set, List', 'from typing import Tuple', 'from collections import Collection', 'from typing import Dict as D, List']))
    nexc = r.randrange(2, 5)
    for i in range(nexc):
        parent = 'Exception' if i == 0 or r.random() < 0.5 else f'Ex{r.randrange(i)}'
        L.append(f'class Ex{i}(msg: Str): {parent}(msg)')
    L.append('')
    # a class with >= 6 interleaved members
    members = []
    nm = r.randrange(6, 11)
    for j in range(nm):
        k = r.randrange(4)
        if k == 0:
            members.append(f'    def fld{j}: Int := {j}')
        elif k == 1:
            members.append(f'    def fin con{j}: Str := "c{j}"')
        elif k == 2:
            members.append(f'    def met{j}(self, a: Int) -> Int => a + {j}')
        else:
            op = r.choice(['+', '-', '*', '=', '<', '>'])
            if not any(m.startswith(f'    def {op}(') for m in members):
                members.append(f'    def {op}(self, other: Big) -> {"Bool" if op in "=<>" else "Big"} => ' + ('True' if op in '=<>' else 'self'))
            else:
                members.append(f'    def ext{j}(fin self) -> Str => "e{j}"')
    L.append('class Big(def ba: Int, def bb: Str)')
    L += members
    L.append('')
    # half of the programs: the parents define the SAME member names with different signatures / types, and a use that fits only one of them
    conflict = r.random() < 0.3
    L.append('class P1\n    def p1f: Int := 1\n    def p1m(self) -> Int => 1' + ('\n    def same(self, x: Int) -> Int => x\n    def shared: Int := 1' if conflict else ''))
    L.append('class P2\n    def p2f: Str := "p"\n    def p2m(self) -> Str => "2"' + ('\n    def same(self, x: Str, y: Int) -> Str => x\n    def shared: Str := "s"' if conflict else ''))
    L.append('class P3\n    def p3f: Bool := True' + ('\n    def same(self) -> Bool => True\n    def shared: Bool := True' if conflict else ''))
    parents = r.sample(['P1', 'P2', 'P3'], r.randrange(2, 4))
    L.append(f"class Multi(def mm: Int): {', '.join(parents)}")
    L.append('    def own(self) -> Int => self.mm')
    L.append('')
    if conflict:
        L.append(r.choice(['def cu := Multi(1).same(1)', 'def cu := Multi(1).same("s", 2)', 'def cu := Multi(1).same()', 'def cf: Int := Multi(1).shared', 'def cf: Str := Multi(1).shared']))
        L.append('')
    raises = ', '.join(f'Ex{i}' for i in r.sample(range(nexc), r.randrange(2, nexc + 1)))
    L.append(f'def risky(k: Int) -> Int raise [{raises}] =>')
    L.append('    if k > 100 then')
    L.append('        raise Ex0("m")')
    L.append('    k')
    L.append('')
    lits = ['1', '"s"', '2.5', 'True', 'Big(1, "b")', '[1, 2]', '["a"]', '[True]', '{1, 2}', '{"x"}', '(1, "t")', 'None']
    for j in range(r.randrange(3, 7)):
        k = r.randrange(4)
        a, b, c = r.sample(lits, 3)
        if k == 0:
            L.append(f'def u{j} := if {r.choice(["True", "1 < 2", "False"])} then {a} else {b}')
        elif k == 1:
            L.append(f'def u{j} := match {r.randrange(3)}\n    0 => {a}\n    1 => {b}\n    _ => {c}')
        elif k == 2:
            tys = r.sample(['Int', 'Str', 'Float', 'Bool', 'Big', 'List[Int]', 'List[Str]', 'Set[Int]', 'Set[Str]'], r.randrange(2, 5))
            init = {'Int': '1', 'Str': '"s"', 'Float': '2.5', 'Bool': 'True', 'Big': 'Big(1, "b")', 'List[Int]': '[1]', 'List[Str]': '["a"]', 'Set[Int]': '{1}', 'Set[Str]': '{"x"}'}[tys[0]]
            L.append(f"def u{j}: {{{', '.join(tys)}}} := {init}")
        else:
            L.append(f'def u{j} := [{a}, {b}, {c}]')
    L.append('def big := Big(1, "x")')
    L.append('print(big.ba)')
    # generator-made helper names: `e ? d` with a left operand that is not an identifier gets a helper lambda per use
    L.append('class NBox(def nv: Int?, def ns: Str?)')
    L.append('def nbox := NBox(None, "s")')
    for j in range(r.randrange(2, 6)):
        L.append(r.choice([f'def h{j}: Int := nbox.nv ? {j}', f'def h{j}: Str := nbox.ns ? "d{j}"', f'def h{j}: Int := NBox({j}, None).nv ? (nbox.nv ? {j})',
                           f'def h{j}: Str := NBox(None, "t{j}").ns ? "e{j}"']))
    return '\n'.join(L) + '\n'


def relation_pair(r):
    """Two programs with the SAME class names but DIFFERENT relations between them (and uses whose verdict
    depends on the relation). Returns (program, conflicting twin)."""
    a, b = r.sample(['Cat', 'Animal', 'Shape', 'Sq', 'Node', 'Item'], 2)
    cont = r.choice(['List', 'Set'])
    lit = '[{}()]' if cont == 'List' else '{{{}()}}'
    use = r.choice([f'def xs: {cont}[{b}] := {lit.format(a)}', f'def keep(x: {b}) -> Int => 1\nprint(keep({a}()))', f'def y: {b} := {a}()',
                    f'def pr(xs: {cont}[{b}]) -> Int => 1\nprint(pr({lit.format(a)}))'])
    related = f'class {b}\n    def tag: Int := 1\nclass {a}: {b}\n    def more: Int := 2\n{use}\nprint("end")\n'
    unrelated = f'class {b}\n    def tag: Int := 1\nclass {a}\n    def more: Int := 2\n{use}\nprint("end")\n'
    return (related, unrelated) if r.random() < 0.5 else (unrelated, related)


def classify(outs):
    """What differs between two Ok payloads."""
    a, b = outs[0].split('\n'), outs[1].split('\n')
    for x, y in zip(a, b):
        if x != y:
            if 'Union[' in x or 'Union[' in y or 'Optional[' in x:
                return 'union-annotation'
            if x.startswith('from ') or x.startswith('import '):
                return 'imports'
            if x.startswith('    ') and (x.strip().startswith('def ') or ':' in x or '=' in x):
                return 'class-or-block-member-order'
            if x.startswith('class '):
                return 'class-header'
            return 'other-line'
    return 'length'


def evaluate(workers, files, part, origin, k, t, pollute=(), flags=(True, False)):
    w = workers[0]
    for ann in flags:
        fresh = None
        if pollute:
            # history test: a brand-new process sees the program first; worker 0 sees the conflicting twin first
            fresh = Worker(watchdog=120)
            for tw in pollute:
                w.pipe([('in.mamba', tw)], annotate=ann)
        r = w.repeat(files, annotate=ann, k=k, t=t, pollute=pollute)
        if r.get('k') != 'ok':
            part.inconc('repeat-' + str(r.get('k')))
            continue
        obs = list(r['distinct'])
        runs = r['runs']
        # fresh processes
        for wp in ([fresh] if fresh else []) + list(workers[1:]):
            rp = wp.pipe(files, annotate=ann)
            v = rp.get('k')
            if v not in ('ok', 'err', 'panic'):
                part.inconc('process-' + str(v)); continue
            payload = '\x01'.join(rp.get('py', [])) if v == 'ok' else '\x01'.join(rp.get('errs', []))
            runs += 1
            m = next((d for d in obs if d['verdict'] == v and d['payload'] == payload), None)
            if m:
                m['count'] += 1
                if 'process' not in m['phases']:
                    m['phases'].append('process')
            else:
                obs.append({'verdict': v, 'payload': payload, 'count': 1, 'phases': ['process']})
        if fresh:
            fresh.close()
            part.count('history-tests')
        part.count('executions', runs)
        verdicts = sorted({d['verdict'] for d in obs})
        part.count(f'distinct-outputs:{len([d for d in obs if d["verdict"] == "ok"]) or 0}')
        wit = {'kind': 'repeat', 'files': files, 'annotate': ann, 'origin': origin, 'k': k, 't': t, 'pollute': list(pollute),
               'observations': [{'verdict': d['verdict'], 'count': d['count'], 'phases': d['phases'], 'payload': d['payload'][:1500]} for d in obs[:4]]}
        if len(verdicts) > 1:
            phases = sorted({p for d in obs for p in d['phases']})
            minority = min(obs, key=lambda d: d['count'])
            part.violation(f"verdict-varies:{'+'.join(verdicts)}:{'+'.join(sorted(minority['phases']))}", wit)
            continue
        oks = [d for d in obs if d['verdict'] == 'ok']
        if len(oks) > 1:
            minority = min(oks, key=lambda d: d['count'])
            part.violation(f"bytes-vary:{classify([oks[0]['payload'], oks[1]['payload']])}", wit)
            continue
        errs = [d for d in obs if d['verdict'] == 'err']
        if len(errs) > 1:
            part.count('diagnostic-text-varies (reported, not a violation)')
            part.sample({'diagnostic-text-varies': origin, 'first': errs[0]['payload'][:200], 'second': errs[1]['payload'][:200]}, cap=2)
        out = oks[0]['payload'] if oks else ''
        part.held((origin.split(':')[0], verdicts[0], ann, len(out) // 200))
        if 'Union[' in out and out.count(',') >= 2:
            part.count('outputs-with-union')
        if out.count('\n    def ') >= 5:
            part.count('outputs-with-6+-class-members')
        if part.evaluations % 40 == 1:
            part.sample({'origin': origin, 'annotate': ann, 'runs': runs, 'distinct': 1, 'verdict': verdicts[0], 'source_head': files[0][1][:300]})


def shard(i, n, count, k, t, nproc):
    workers = [Worker(watchdog=120) for _ in range(1 + nproc)]
    part = Partial()
    samples = [s for s in common.repo_samples('valid') if len(s[1]) < 2500]
    for j in range(i, count, n):
        r = rng(PROP, 'prog', j)
        c = j % 10
        if c < 4:
            files = [('in.mamba', hashy_program(r))]; origin = f'hashy:{j}'; pol = ()
        elif c < 6:
            p, twin = relation_pair(r)
            files = [('in.mamba', p)]; origin = f'relation-pair:{j}'; pol = (twin,)
        elif c < 8:
            prog, _ = gen.generate(r, {'size': 1})
            files = [('in.mamba', lang.to_mamba(prog))]; origin = f'generated:{j}'; pol = ()
        elif c < 9:
            rel, src = samples[j % len(samples)]
            files = [(rel, src)]; origin = 'sample:' + rel; pol = ()
        else:
            from . import projects
            proj = projects.generate(r)
            files = [(p_, s_) for p_, s_ in proj['files']]; origin = f'project:{j}'; pol = ()
            part.count('multi-file')
        evaluate(workers, files, part, origin, k, t, pol, flags=(True, False) if j % 3 == 0 else (True,))
        part.count('programs')
    for w in workers:
        w.close()
    return part.dump()


def replay_entries(rep):
    rep.known_live = {}
    workers = [Worker(watchdog=120) for _ in range(3)]
    entries = [(sig, wit) for sig, (wit, _) in rep.known.known.items()] + [(None, x[2]) for x in rep.known.fixed if x[2]]
    for sig, wit in entries:
        obj = json.load(open(os.path.join(common.ROOT, wit)))
        part = Partial()
        evaluate(workers, [tuple(f) for f in obj['files']], part, 'finding:' + wit, obj.get('k', 24), obj.get('t', 8), obj.get('pollute', ()), flags=obj.get('flags', [True, False]))
        if sig is not None:
            rep.known_live[sig] = sig in part.violations
        else:
            rep.count('fixed-regressions-replayed')
        for s, (wt, c) in part.violations.items():
            rep.violation(s, wt)
    for w in workers:
        w.close()


def main(tier):
    common.build()
    rep = Report(PROP, tier, 'exploration')
    count, k, t, nproc = (120, 8, 8, 2) if tier == 'quick' else (500, 24, 16, 3)
    rep.rule = (f'one evaluation = one (program, annotate flag): K={k} sequential runs in one process + T={t} concurrent threads + a run after a conflicting program in the '
                f'same process + P={nproc} fresh processes, all on identical arguments; held iff one verdict and one byte-identical output; distinct = distinct (origin, verdict, flag, '
                'output-size bucket); non-trivial = at least K+T runs were compared')
    rep.assumptions = ['hash seeds inside the process are not controlled; repetition is the schedule dimension (miss probability per affected program is (1/m)^(runs-1) for m equiprobable orders)',
                       'differences in diagnostic TEXT between runs are reported in the evidence but are not violations (the property speaks of verdict and emitted bytes)']
    replay_entries(rep)
    for d in run_shards(shard, (count, k, t, nproc)):
        rep.merge(d)
    floors = [('enough programs whose output has a multi-member Union (30 quick / 100 thorough)', rep.cov.get('outputs-with-union', 0) >= (30 if tier == 'quick' else 100)),
              ('enough outputs with >= 6 class members (30 quick / 100 thorough)', rep.cov.get('outputs-with-6+-class-members', 0) >= (30 if tier == 'quick' else 100)),
              ('>= 10 multi-file projects', rep.cov.get('multi-file', 0) >= 10),
              ('>= 2500 executions compared', rep.cov.get('executions', 0) >= 2500)]
    return rep.finish(floors, extra_cov={'K': k, 'T': t, 'P': nproc})


def replay(path):
    common.build()
    obj = json.load(open(path))['witness']
    workers = [Worker(watchdog=120) for _ in range(3)]
    part = Partial()
    evaluate(workers, [tuple(f) for f in obj['files']], part, 'replay', 40, 16, obj.get('pollute', ()), flags=[obj['annotate']])
    for w in workers:
        w.close()
    if part.violations:
        print(f'VIOLATION property={PROP} replay={path}')
        return 1
    print('replay: held (irreproducibility is the violation here: a clean replay does not refute the recorded observations)')
    return 0
