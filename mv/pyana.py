"""Static observations on emitted Python (the exact text mamba returned): annotation erasure (C11), free
global names and import discipline (C16), API signature tables (C17)."""
import ast, builtins, symtable

SUPPORT = {'math': {'math'}, 'typing': {'Optional', 'Union', 'Tuple', 'Callable', 'Any', 'NewType', 'List', 'Set', 'Dict'}, 'abc': {'ABC', 'abstractmethod'}}


# ------------------------------------------------------------------------------------------ C11
class _Erase(ast.NodeTransformer):
    def visit_AnnAssign(self, n):
        self.generic_visit(n)
        if n.value is None:
            return None          # a bare `x: T` binds nothing
        return ast.Assign(targets=[n.target], value=n.value, lineno=0, col_offset=0)

    def _fun(self, n):
        self.generic_visit(n)
        n.returns = None
        for a in n.args.posonlyargs + n.args.args + n.args.kwonlyargs + ([n.args.vararg] if n.args.vararg else []) + ([n.args.kwarg] if n.args.kwarg else []):
            a.annotation = None
        return n

    visit_FunctionDef = _fun
    visit_AsyncFunctionDef = _fun

    def visit_Lambda(self, n):
        self.generic_visit(n)
        return n


def erase(src):
    """ast.dump of the module with annotations erased and typing imports reduced to the names still used."""
    tree = _Erase().visit(ast.parse(src))
    # bodies that became empty get a `pass` on neither side: compare as is, but an empty body would not unparse; keep a marker
    for node in ast.walk(tree):
        for fld in ('body', 'orelse', 'finalbody'):
            b = getattr(node, fld, None)
            if isinstance(b, list) and not b and fld == 'body' and isinstance(node, (ast.FunctionDef, ast.ClassDef, ast.If, ast.For, ast.While, ast.With, ast.Try, ast.ExceptHandler, ast.Module)):
                if not isinstance(node, ast.Module):
                    b.append(ast.Pass())
    used = {n.id for n in ast.walk(tree) if isinstance(n, ast.Name)} | {n.value.id for n in ast.walk(tree) if isinstance(n, ast.Attribute) and isinstance(n.value, ast.Name)}
    body = []
    for st in tree.body:
        if isinstance(st, ast.ImportFrom) and st.module == 'typing':
            st.names = [a for a in st.names if (a.asname or a.name) in used]
            if not st.names:
                continue
        body.append(st)
    tree.body = body
    # a class/function body consisting only of `pass` next to other statements: normalise away redundant pass
    for node in ast.walk(tree):
        b = getattr(node, 'body', None)
        if isinstance(b, list) and len(b) > 1:
            node.body = [x for x in b if not isinstance(x, ast.Pass)] or [ast.Pass()]
    return ast.dump(tree)


def first_difference(a_src, b_src):
    """Kind of the first top-level statement at which the erased modules differ."""
    ta, tb = _Erase().visit(ast.parse(a_src)), _Erase().visit(ast.parse(b_src))
    for x, y in zip(ta.body, tb.body):
        if ast.dump(x) != ast.dump(y):
            kx = type(x).__name__
            if isinstance(x, ast.ClassDef) and isinstance(y, ast.ClassDef):
                for mx, my in zip(x.body, y.body):
                    if ast.dump(mx) != ast.dump(my):
                        return f'ClassDef/{type(mx).__name__}-vs-{type(my).__name__}'
                return 'ClassDef/length'
            if isinstance(x, ast.FunctionDef) and isinstance(y, ast.FunctionDef):
                for mx, my in zip(x.body, y.body):
                    if ast.dump(mx) != ast.dump(my):
                        return f'FunctionDef/{type(mx).__name__}-vs-{type(my).__name__}'
                return 'FunctionDef/length-or-signature'
            return f'{kx}-vs-{type(y).__name__}'
    return 'length'


# ------------------------------------------------------------------------------------------ C16
def import_report(src):
    """dict(free=set of unbound global names, dup=[names imported twice], late=[imports after other statements],
    bindings={name: (module, kind)})"""
    tree = ast.parse(src)
    bindings = {}
    dup, late = [], []
    seen_other = False
    for i, st in enumerate(tree.body):
        if isinstance(st, (ast.Import, ast.ImportFrom)):
            if seen_other:
                late.append(ast.unparse(st))
            for a in st.names:
                name = (a.asname or a.name).split('.')[0]
                if name in bindings:
                    dup.append(name)
                bindings[name] = (getattr(st, 'module', None) or a.name, 'from' if isinstance(st, ast.ImportFrom) else 'import')
        elif isinstance(st, ast.Expr) and isinstance(st.value, ast.Constant) and isinstance(st.value.value, str) and i == 0:
            pass
        else:
            seen_other = True
    top = symtable.symtable(src, 'out.py', 'exec')
    module_bound = {s.get_name() for s in top.get_symbols() if s.is_assigned() or s.is_imported() or s.is_namespace()}
    used = set()

    def walk(t):
        for sym in t.get_symbols():
            if not sym.is_referenced():
                continue
            if t is top:
                used.add(sym.get_name())
            elif sym.is_global():
                used.add(sym.get_name())
        for c in t.get_children():
            walk(c)
    walk(top)
    free = {n for n in used if n not in module_bound and not hasattr(builtins, n)}
    # use before binding at module level (statement order): a module-level name loaded by a module-level statement
    # before the statement that first binds it
    first_bind = {}
    early = []
    for i, st in enumerate(tree.body):
        for n in ast.walk(st):
            if isinstance(n, ast.Name) and isinstance(n.ctx, ast.Load) and n.id in bindings and n.id not in first_bind:
                # loaded inside a def body is fine (executed later) unless the def is a class body / decorator / default / annotation
                pass
        if isinstance(st, (ast.Import, ast.ImportFrom)):
            for a in st.names:
                first_bind.setdefault((a.asname or a.name).split('.')[0], i)
    return dict(free=free, dup=dup, late=late, bindings=bindings)


def support_names_used(src):
    """Support names (math / typing / abc) that the module references."""
    tree = ast.parse(src)
    names = {n.id for n in ast.walk(tree) if isinstance(n, ast.Name)}
    out = set()
    for mod, ns in SUPPORT.items():
        out |= {n for n in ns if n in names}
    return out


# ------------------------------------------------------------------------------------------ C17
def api_table(src):
    """{'functions': {name: sig}, 'classes': {name: {'bases': [...], 'methods': {name: sig}}}} with
    sig = [(param name, has default, star)]"""
    tree = ast.parse(src)

    def sig(f):
        a = f.args
        out = []
        pos = a.posonlyargs + a.args
        nd = len(a.defaults)
        for i, p in enumerate(pos):
            out.append((p.arg, i >= len(pos) - nd, ''))
        if a.vararg:
            out.append((a.vararg.arg, False, '*'))
        for p, d in zip(a.kwonlyargs, a.kw_defaults):
            out.append((p.arg, d is not None, 'kw'))
        if a.kwarg:
            out.append((a.kwarg.arg, False, '**'))
        return out

    def defaults(f):
        a = f.args
        pos = a.posonlyargs + a.args
        return {p.arg: ast.unparse(d) for p, d in zip(pos[len(pos) - len(a.defaults):], a.defaults)}
    funs, classes = {}, {}
    dupes = []
    for st in tree.body:
        if isinstance(st, ast.FunctionDef):
            if st.name in funs:
                dupes.append(st.name)
            funs[st.name] = {'sig': sig(st), 'defaults': defaults(st)}
        elif isinstance(st, ast.ClassDef):
            ms = {}
            fields = []
            for m in st.body:
                if isinstance(m, ast.FunctionDef):
                    if m.name in ms:
                        dupes.append(f'{st.name}.{m.name}')
                    ms[m.name] = {'sig': sig(m), 'defaults': defaults(m)}
                elif isinstance(m, (ast.Assign, ast.AnnAssign)):
                    t = m.targets[0] if isinstance(m, ast.Assign) else m.target
                    if isinstance(t, ast.Name):
                        fields.append(t.id)
            classes[st.name] = {'bases': [ast.unparse(b) for b in st.bases], 'methods': ms, 'fields': fields}
    return {'functions': funs, 'classes': classes, 'duplicates': dupes}
