"""C08 — explicit error handling: raises must be declared or handled; the emitted try/except catches
exactly the listed classes (dynamic half: the handle/raise payloads of the behavioural sweep are executed
and compared with the reference interpreter, arm by arm)."""
from . import vsweep, verdict, common, sweeps, c01
from .common import Partial, Worker, run_shards

PROP = 'C08'


def cells(tier='thorough'):
    return vsweep.c08_cells()


def shard_dynamic(i, n):
    w = Worker(watchdog=60); part = Partial()
    names = [k for k in sweeps.payloads() if k.startswith(('handle', 'raise-', 'uncaught'))]
    k = 0
    for name in names:
        pl = sweeps.payloads()[name]
        for ctx in sweeps.CONTEXTS:
            if pl['top_only'] and ctx != 'top':
                continue
            k += 1
            if k % n != i:
                continue
            c01.evaluate(w, sweeps.wrap(pl, ctx), part, f'dynamic:{name}@{ctx}', shrink=False, cell=f'{name}@{ctx}')
            part.count('dynamic-cells')
    w.close()
    return part.dump()


def main(tier):
    from .common import Report
    cs = cells(tier)
    # static half through the shared engine, then the dynamic half merged into the same report
    import json, os
    common.build()
    status = verdict.run(PROP, tier, cs, 'exploration',
                         rule=('one evaluation = one sweep cell: raised class K (hierarchy of depth 3) x raise source (raise statement, call of a function / method declaring '
                               '`raise [K]`) x position in the function body x declared set D x handled set H (all subsets of size <= 2); accept iff K or an ancestor is in D or H; '
                               'plus scope cells (protection ends after the handle; arms are not protected by their own handle) and declare cells (only Exception subclasses); '
                               'dynamic half: handle/raise programs executed and compared arm by arm with the reference interpreter'),
                         assumptions=['hierarchy: E1 <: Exception, E2 <: E1, E4 <: E2, E3 <: Exception', 'both tiers evaluate all cells'],
                         extra_floors=[], )
    # dynamic half: appended to the evidence written by verdict.run
    parts = run_shards(shard_dynamic)
    rep = Report(PROP, tier, 'exploration')
    for d in parts:
        d['cov'].pop('rejected-msgs', None); d['cov'].pop('rejected-cells', None)
        rep.merge(d)
    ev_path = os.path.join(common.ROOT, 'evidence', PROP + '.json')
    ev = json.load(open(ev_path))
    ev['coverage']['dynamic_half'] = {'cells': rep.cov.get('dynamic-cells', 0), 'executed': rep.cov.get('executed', 0), 'violations': sorted(rep.violations)}
    ev['coverage']['evaluations'] += rep.evaluations
    dyn_status = 0
    os.makedirs(os.path.join(common.ROOT, 'replay', PROP), exist_ok=True)
    for sig, wit in rep.violations.items():
        import hashlib
        path = os.path.join(common.ROOT, 'replay', PROP, hashlib.sha1(sig.encode()).hexdigest()[:12] + '.json')
        json.dump({'property': PROP, 'sig': 'dynamic:' + sig, 'witness': wit}, open(path, 'w'), indent=1, default=str)
        print(f'VIOLATION property={PROP} replay={path}')
        common.log('  sig: dynamic:' + sig)
        dyn_status = 1
    if rep.cov.get('executed', 0) < 100 and dyn_status == 0 and status == 0:
        print(f'INCONCLUSIVE property={PROP} reason=floor-not-met: dynamic half executed < 100 runs')
        dyn_status = 3
    ev['violations'] = ev.get('violations', 0) + len(rep.violations)
    json.dump(ev, open(ev_path, 'w'), indent=1, default=str)
    return status or dyn_status


def replay(path):
    return verdict.replay(PROP, path, lambda: vsweep.c08_cells())
