"""C14 — layout trivia never changes meaning.

Metamorphic: program P and a trivia variant P' (one placement at a time, then random combinations) go
through the real pipeline; verdict and emitted Python must be equal (bytes for comment / blank / CRLF /
trailing-space / final-newline variants; Python AST + executed behaviour for redundant parentheses)."""
import ast, copy, json, os
from . import common, lang, gen, sweeps, behave
from .common import Partial, Report, Worker, rng, run_shards

PROP = 'C14'


def indent_of(line):
    return len(line) - len(line.lstrip(' '))


def variants(src, r=None, limit=None, file_level_only=False):
    """Yield (placement kind, variant text). One trivia item at a time."""
    lines = src.split('\n')
    if lines and lines[-1] == '':
        lines = lines[:-1]
    body = lines
    n = len(body)

    def join(ls, final='\n'):
        return '\n'.join(ls) + final
    out = []
    for i, l in enumerate(body):
        if not l.strip() or file_level_only:
            continue
        out.append(('trailing-comment', join(body[:i] + [l + ' # note'] + body[i + 1:])))
        out.append(('trailing-comment-nospace', join(body[:i] + [l + '#note'] + body[i + 1:])))
        out.append(('trailing-spaces', join(body[:i] + [l + '   '] + body[i + 1:])))
        prev = next((body[j] for j in range(i - 1, -1, -1) if body[j].strip()), None)
        # whole-line comment before line i, indented like the following statement line (= line i) ...
        out.append(('comment-before:indent-of-next', join(body[:i] + [' ' * indent_of(l) + '# note'] + body[i:])))
        # ... and like the preceding statement line
        if prev is not None and indent_of(prev) != indent_of(l):
            out.append(('comment-before:indent-of-previous', join(body[:i] + [' ' * indent_of(prev) + '# note'] + body[i:])))
        for k in (1, 2, 3):
            if k > 1 and i % 3:
                continue
            out.append((f'blank-lines-before:{k}', join(body[:i] + [''] * k + body[i:])))
        out.append(('whitespace-only-line-before:same-indent', join(body[:i] + [' ' * indent_of(l)] + body[i:])))
        out.append(('whitespace-only-line-before:two-spaces', join(body[:i] + ['  '] + body[i:])))
        if prev is not None:
            out.append(('whitespace-only-line-before:indent-of-previous', join(body[:i] + [' ' * indent_of(prev)] + body[i:])))
    out.append(('final-newline:absent', join(body, '')))
    out.append(('final-newline:doubled', join(body, '\n\n')))
    out.append(('final-newline:tripled-with-spaces', join(body, '\n  \n\n')))
    out.append(('comment-at-eof', join(body + ['# the end'])))
    out.append(('comment-at-eof-no-newline', join(body + ['# the end'], '')))
    out.append(('comment-first-line', join(['# header'] + body)))
    out.append(('blank-first-lines', join(['', ''] + body)))
    if not file_level_only:
        # (a line break inside a string literal is content, not trivia: programs with multi-line strings get their CRLF variant through
        # the binary, whose writer normalises line endings - see crlf_through_binary)
        out.append(('crlf', join(body).replace('\n', '\r\n')))
        out.append(('crlf-with-comment', join([body[0] + ' # c'] + body[1:]).replace('\n', '\r\n')))
    if limit and len(out) > limit and r is not None:
        keep = set(r.sample(range(len(out)), limit))
        out = [v for k, v in enumerate(out) if k in keep]
    return out


def context_of(src, variant):
    """Which construct the inserted trivia touches: the first word of the next non-trivia line (else/arm/...)
    and of the previous one - the culprit part of the signature."""
    a, b = src.split('\n'), variant.replace('\r\n', '\n').split('\n')
    i = 0
    while i < min(len(a), len(b)) and a[i] == b[i]:
        i += 1

    def kind(line):
        s = line.strip()
        if not s:
            return 'blank'
        w = s.split()[0]
        if '=>' in s and not s.startswith('def '):
            return 'arm'
        if w in ('else', 'if', 'match', 'for', 'while', 'class', 'type', 'def', 'return', 'raise', 'print', 'when'):
            return w
        if s.endswith('handle'):
            return 'handle-head'
        return 'stmt'
    nxt = next((kind(l) for l in a[i:] if l.strip()), 'eof')
    prv = next((kind(l) for l in reversed(a[:i]) if l.strip()), 'bof')
    return f'{prv}>{nxt}'


def crlf_through_binary(part, name, src, annotate):
    """LF and CRLF copies of one source through the real binary: same exit status, byte-identical .py."""
    import subprocess, tempfile, shutil
    root = tempfile.mkdtemp(prefix='c14-', dir=common.TARGET)
    try:
        outs = []
        for tag, text in (('lf', src), ('crlf', src.replace('\n', '\r\n'))):
            d = os.path.join(root, tag); os.makedirs(d)
            with open(os.path.join(d, 'prog.mamba'), 'w', encoding='utf-8', newline='') as f:
                f.write(text)
            p = subprocess.run([common.CLI] + (['-a'] if annotate else []) + ['-i', 'prog.mamba', '-o', 'out'], cwd=d, stdout=subprocess.PIPE, stderr=subprocess.PIPE, timeout=60)
            py = os.path.join(d, 'out', 'prog.py')
            outs.append((p.returncode, open(py, 'rb').read() if os.path.exists(py) else None))
        part.count('crlf-through-binary')
        wit = {'kind': 'trivia', 'origin': 'text:' + name, 'placement': 'crlf-through-binary', 'annotate': annotate, 'base': src}
        if outs[0][0] != outs[1][0]:
            part.violation('verdict-changes:crlf-through-binary', dict(wit, exits=[outs[0][0], outs[1][0]]))
        elif outs[0][1] != outs[1][1]:
            a, b = outs[0][1] or b'', outs[1][1] or b''
            at = next((i for i in range(min(len(a), len(b))) if a[i] != b[i]), min(len(a), len(b)))
            part.violation('output-changes:crlf-through-binary', dict(wit, first_difference_at_byte=at, lf=a[max(0, at - 30):at + 30].decode('utf-8', 'replace'), crlf=b[max(0, at - 30):at + 30].decode('utf-8', 'replace')))
        else:
            part.held(('crlf-through-binary', name, outs[0][0]))
    except subprocess.TimeoutExpired:
        part.inconc('binary-timeout')
    finally:
        shutil.rmtree(root, ignore_errors=True)


def judge_program(w, src, part, origin, r, limit, annotate=False, file_level_only=False):
    base = w.pipe(src, annotate=annotate)
    kb = base.get('k')
    if kb not in ('ok', 'err'):
        part.inconc('pipeline-' + str(kb)); return
    base2 = w.pipe(src, annotate=annotate)
    if base2.get('k') != kb or base2.get('py') != base.get('py'):
        part.inconc('nondeterministic-baseline'); return
    part.count('base-' + kb)
    for kind, var in variants(src, r, limit, file_level_only):
        res = w.pipe(var, annotate=annotate)
        kv = res.get('k')
        if kv not in ('ok', 'err'):
            part.inconc('pipeline-' + str(kv)); continue
        part.count('variants')
        part.count('placement:' + kind.split(':')[0])
        wit = {'kind': 'trivia', 'origin': origin, 'placement': kind, 'annotate': annotate, 'base': src, 'variant': var, 'base_verdict': kb, 'variant_verdict': kv}
        if kv != kb:
            part.violation(f'verdict-changes:{kb}->{kv}:{kind}:{context_of(src, var)}', dict(wit, diagnostic=((res if kv == "err" else base).get('errs') or [''])[0][:400]))
            continue
        if kb == 'ok' and res['py'] != base['py']:
            part.violation(f'output-changes:{kind}:{context_of(src, var)}', dict(wit, base_py=base['py'][0][:1500], variant_py=res['py'][0][:1500]))
            continue
        part.held((kind, kb, context_of(src, var)))
    if part.evaluations % 300 < 30:
        part.sample({'origin': origin, 'base_head': src[:200], 'verdict': kb, 'variants_tried': len(variants(src, r, limit))})


# ------------------------------------------------------------------------------------ redundant parentheses
def paren_variants(prog):
    """Programs equal to prog except that ONE sub-expression is printed inside an extra pair of parentheses."""
    # enumerate expression nodes by identity
    nodes = []

    def ex(x):
        if isinstance(x, dict) and 'k' in x and x['k'] in ('lit', 'var', 'bin', 'not', 'call', 'mcall', 'fld', 'new', 'qd', 'idx', 'neg', 'sqrt'):
            nodes.append(x)
        if isinstance(x, dict):
            for key, v in x.items():
                if key in ('parts',):       # no parentheses inside interpolations (quotes would nest)
                    continue
                ex(v)
        elif isinstance(x, (list, tuple)):
            for y in x:
                ex(y)
    ex(prog.get('main', []))
    for f in prog.get('funs', []):
        ex(f['body'])
    for c in prog.get('classes', []):
        for m in c.get('members', []):
            if m['k'] == 'method' and m.get('body'):
                ex(m['body'])
    return nodes


class ParenPrinter(lang.Printer):
    def __init__(self, target):
        super().__init__()
        self.target = target

    def e(self, x, top=False):
        s = super().e(x, top)
        if x is self.target:
            return '(' + s + ')'
        return s


def judge_parens(w, prog, part, origin, r, limit):
    src = lang.to_mamba(prog)
    base = w.pipe(src, annotate=False)
    if base.get('k') != 'ok':
        part.count('paren-base-rejected'); return
    try:
        base_ast = ast.dump(ast.parse(base['py'][0]))
    except SyntaxError:
        return
    exp = behave.expected(prog)
    nodes = paren_variants(prog)
    if limit and len(nodes) > limit:
        nodes = r.sample(nodes, limit)
    for node in nodes:
        var = ParenPrinter(node).program(prog)
        if var == src:
            continue
        res = w.pipe(var, annotate=False)
        kv = res.get('k')
        if kv not in ('ok', 'err'):
            part.inconc('pipeline-' + str(kv)); continue
        part.count('paren-variants')
        ek = node['k'] + (':' + node['op'] if node['k'] == 'bin' else '')
        wit = {'kind': 'parens', 'origin': origin, 'base': src, 'variant': var, 'node': ek}
        if kv != 'ok':
            part.violation(f'parens:verdict-changes:{ek}', dict(wit, diagnostic=res['errs'][0][:400]))
            continue
        try:
            same = ast.dump(ast.parse(res['py'][0])) == base_ast
        except SyntaxError:
            same = False
        if not same:
            # behaviour is what the statement demands for parentheses
            lines, exc, o = behave.observe(res['py'][0])
            lb, xb, ob = behave.observe(base['py'][0])
            if (lines, exc) != (lb, xb):
                part.violation(f'parens:behaviour-changes:{ek}', dict(wit, base_out=lb[:8], variant_out=lines[:8]))
                continue
            part.count('paren-ast-differs-behaviour-equal')
        part.held(('parens', ek))


def shard(i, n, nprog, stride):
    w = Worker(watchdog=60); part = Partial()
    k = 0
    cells = sweeps.cells()
    for kk, (cell, prog) in enumerate(cells):
        k += 1
        if k % n == i and kk % stride == (common.SEED % stride):
            r = rng(PROP, 'sweep', kk)
            judge_program(w, lang.to_mamba(prog), part, 'sweep:' + cell, r, 40, annotate=bool(kk % 2))
            part.count('programs')
    # programs with doc-strings and multi-line strings: only the trivia that stands outside every line (line endings, final newline, first / last line)
    from . import c19
    for name, src in c19.TEXT_BASES.items():
        k += 1
        if k % n == i and '\r' not in src:
            judge_program(w, src, part, 'text:' + name, rng(PROP, 'text', name), None, annotate=bool(k % 2), file_level_only=True)
            crlf_through_binary(part, name, src, annotate=bool(k % 2))
            part.count('programs'); part.count('multi-line-string-programs')
    for rel, src in common.repo_samples('valid'):
        k += 1
        if k % n != i or len(src) > 1800 or '"""' in src or any(l.count('"') % 2 for l in src.split('\n')) or '\r' in src:
            continue
        r = rng(PROP, 'sample', rel)
        judge_program(w, src if src.endswith('\n') else src + '\n', part, 'sample:' + rel, r, 45)
        part.count('programs'); part.count('samples')
    for j in range(nprog):
        k += 1
        if k % n != i:
            continue
        r = rng(PROP, 'gen', j)
        prog, _ = gen.generate(r, {'size': 1})
        if j % 3 == 1:
            prog['layout'] = j
        src = lang.to_mamba(prog)
        if len(src.split('\n')) > 45:
            continue
        judge_program(w, src, part, f'generated:{j}', r, 30)
        judge_parens(w, prog, part, f'generated:{j}', r, 15)
        part.count('programs'); part.count('generated')
    for kk, (cell, prog) in enumerate(cells):
        k += 1
        if k % n == i and kk % stride == ((common.SEED + 4) % stride):
            judge_parens(w, prog, part, 'sweep:' + cell, rng(PROP, 'par', kk), 12)
    w.close()
    return part.dump()


def replay_entries(rep):
    rep.known_live = {}
    w = Worker(watchdog=60)
    entries = [(sig, wit) for sig, (wit, _) in rep.known.known.items()] + [(None, x[2]) for x in rep.known.fixed if x[2]]
    for sig, wit in entries:
        obj = json.load(open(os.path.join(common.ROOT, wit)))
        part = Partial()
        judge_program(w, obj['base'], part, 'finding:' + wit, rng(PROP, 'replay', wit), None)
        if sig is not None:
            rep.known_live[sig] = sig in part.violations
        else:
            rep.count('fixed-regressions-replayed')
        for s, (wt, c) in part.violations.items():
            rep.violation(s, wt)
    w.close()


def main(tier):
    common.build(cli=True)
    rep = Report(PROP, tier, 'exploration')
    rep.rule = ('one evaluation = one (program, trivia variant) pair through the real pipeline: a trailing comment / trailing spaces on a line, a whole-line comment before a line indented '
                'like the next or like the previous statement, 1-3 blank lines, whitespace-only lines of three indentations, final-newline forms, comments at begin/end of file, CRLF; '
                'and one sub-expression in redundant parentheses; held iff verdict and emitted bytes are unchanged (parentheses: AST, else executed behaviour); distinct = distinct '
                '(placement kind, verdict, previous>next construct)')
    rep.assumptions = ['no trivia is inserted inside string literals (generated programs have no multi-line strings; samples with doc-strings or odd quote counts are skipped)',
                       'comments are not transpiled, so the emitted bytes must be identical']
    replay_entries(rep)
    nprog, stride = (60, 14) if tier == 'quick' else (800, 3)
    for d in run_shards(shard, (nprog, stride)):
        rep.merge(d)
    kinds = [k for k in rep.cov if k.startswith('placement:')]
    floors = [('>= 5000 trivia variants', rep.cov.get('variants', 0) >= 5000), ('>= 10 placement kinds exercised', len(kinds) >= 10),
              ('>= 300 redundant-parenthesis variants', rep.cov.get('paren-variants', 0) >= 300), ('>= 120 base programs', rep.cov.get('programs', 0) >= 120)]
    return rep.finish(floors)


def replay(path):
    common.build()
    obj = json.load(open(path))['witness']
    w = Worker(watchdog=60)
    a = w.pipe(obj['base'], annotate=obj.get('annotate', False)); b = w.pipe(obj['variant'], annotate=obj.get('annotate', False))
    w.close()
    if a.get('k') != b.get('k') or (a.get('k') == 'ok' and obj.get('kind') == 'trivia' and a['py'] != b['py']):
        print(f'VIOLATION property={PROP} replay={path}')
        return 1
    print('replay: held')
    return 0
