"""Hostile inputs below the grammar: raw text, token soup, token-level mutations of samples,
adversarial shapes. Shared by C02, C03, C18, C19."""
import re

TOK = re.compile(r'"[^"\n]*"|[A-Za-z_][A-Za-z_0-9]*|\d+\.?\d*(?:E\d+)?|::=|\.\.=|<<=|>>=|:=|\+=|-=|\*=|/=|\^=|->|=>|<=|>=|!='
                 r'|\.\.|::|<<|>>|//|\n *|#[^\n]*|[^\sA-Za-z_0-9]| +')

KEYWORDS = ['from', 'type', 'class', 'pure', 'as', 'import', 'forward', 'vararg', 'def', 'fin', 'and', 'or', 'not', 'is',
            'isa', 'mod', 'sqrt', 'while', 'for', '_and_', '_or_', '_xor_', '_not_', 'if', 'else', 'match', 'continue',
            'break', 'return', 'then', 'do', 'with', 'in', 'raise', 'handle', 'when', 'pass', '_']
OPERATORS = [',', ':', '::', '::=', ':=', '(', ')', '[', ']', '{', '}', '|', '.', '..', '..=', '<', '<<', '<<=', '<=',
             '>', '>>', '>>=', '>=', '+', '+=', '-', '-=', '->', '*', '*=', '/', '/=', '//', '\\', '^', '^=', '=', '=>',
             '!=', '?']
LITERALS = ['x', 'y1', 'Int', 'self', 'None', 'True', '1', '007', '2.5', '1E3', '10E', '"s"', '""', '"a{x}b"', '"{x + 1}"',
            '"a\\"b"', '"""doc"""', '#c']
VOCAB = KEYWORDS + OPERATORS + LITERALS

SOUP = VOCAB + ['\n', '\n    ', '\n        ', 'print', 'Str', 'init', '!', '\t', '\r', '\r\n', 'é', '"', '"""', "'", '`', '$',
                '\x00', ' ', '😀', 'E', '1.', '.5', '0x1F', '1_000', '1E-3', 'Exception', 'List', 'range', '@']


def tokens_of(s):
    return TOK.findall(s)


def mutate(s, r, edits=None):
    toks = TOK.findall(s)
    if not toks:
        return s
    for _ in range(edits or r.choice([1, 1, 1, 2, 3])):
        i = r.randrange(len(toks)); op = r.randrange(5)
        if op == 0:
            del toks[i]
        elif op == 1:
            toks.insert(i, r.choice(SOUP))
        elif op == 2:
            toks[i] = r.choice(SOUP)
        elif op == 3 and len(toks) > 1:
            j = r.randrange(len(toks)); toks[i], toks[j] = toks[j], toks[i]
        else:
            toks.insert(i, toks[i])
        if not toks:
            break
    return ''.join(toks)


def soup(r):
    n = r.randrange(1, 40)
    return ' '.join(r.choice(SOUP) for _ in range(n)).replace(' \n', '\n')


def raw(r):
    n = r.randrange(0, 160)
    kind = r.randrange(4)
    out = []
    for _ in range(n):
        c = r.randrange(10)
        if kind == 0 or c < 6:
            out.append(chr(r.randrange(32, 127)))
        elif c == 6:
            out.append(r.choice('\n\n \t\r'))
        elif c == 7:
            out.append(chr(r.randrange(0x80, 0x800)))
        elif c == 8:
            out.append(chr(r.choice([0, 1, 0x7f, 0x2028, 0xfeff, 0x1F600, 0xFFFD, 0x10FFFF])))
        else:
            out.append(r.choice('"{}()[]#\\'))
    return ''.join(out)


def adversarial():
    """Catalogue of structured adversarial shapes: list of (tag, files) where files = [(path, src)]."""
    A = []

    def one(tag, src):
        A.append((tag, [('in.mamba', src)]))

    one('self-inherit', 'class A: A\n')
    one('self-inherit-use', 'class A: A\ndef a := A()\n')
    one('cycle2', 'class A: B\nclass B: A\n')
    one('cycle2-use', 'class A: B\nclass B: A\ndef a := A()\nprint(a)\n')
    one('cycle3', 'class A: B\nclass B: C\nclass C: A\ndef x: A := A()\n')
    one('diamond', 'class R\nclass A: R\nclass B: R\nclass C: A, B\ndef c := C()\n')
    for depth in (4, 8, 12, 16, 20, 24):
        src = 'class A0\n' + ''.join(f'class B{i}: A{i}\nclass C{i}: A{i}\nclass A{i + 1}: B{i}, C{i}\n' for i in range(depth))
        one(f'diamond-chain-{depth}', src + f'def x := A{depth}()\n')
    one('dup-class', 'class A\n    def x: Int := 1\nclass A\n    def y: Int := 2\ndef a := A()\n')
    one('dup-fun', 'def f(x: Int) -> Int => x\ndef f(x: Str) -> Str => x\nprint(f(1))\n')
    one('builtin-class-name', 'class Int\n    def x: Int := 1\n')
    one('builtin-class-name2', 'class Str: Int\n')
    one('empty-tuple', 'def x := ()\n')
    one('empty-tuple-def', 'def () := 1\n')
    one('empty-tuple-def2', 'def () := ()\n')
    one('empty-file', '')
    one('only-newlines', '\n\n\n')
    one('only-spaces', '    \n  ')
    one('only-comment', '# nothing')
    one('empty-string', 'def x := ""\ndef y := 2\n')
    one('empty-string-many', 'def a := ""\ndef b := ""\ndef c := ""\ndef d := ""\nprint(a)\n')
    one('docstring', 'class A\n    """doc"""\n    def x: Int := 1\n')
    one('docstring-multi', 'def f() =>\n    """a\n    b\n    c"""\n    print("x")\n')
    one('unterminated-string', 'def x := "abc\n')
    one('unterminated-string2', '"')
    one('unbalanced-brace-in-string', 'def x := "a{b"\n')
    one('unbalanced-brace-in-string2', 'def x := "a}b"\n')
    one('unbalanced-brace-in-string3', 'def x := "a}{b"\nprint(x)\n')
    one('nested-brace', 'def y := 1\ndef x := "a{{y}}"\n')
    one('empty-interp', 'def x := "a{}b"\n')
    one('interp-string', 'def x := "a{"b"}c"\n')
    one('interp-unbalanced-paren', 'def y := 1\ndef x := "{(y}"\n')
    one('interp-bad-char', 'def x := "{!}"\n')
    one('interp-newline', 'def y := 1\ndef x := "{y +\n 1}"\n')
    one('leading-zero', 'def x := 007\n')
    one('enum-no-exp', 'def x := 1E\n')
    one('real-no-frac', 'def x := 1.\n')
    one('range-dots', 'def x := 1...2\n')
    one('dotdot', '..\n')
    one('huge-int', 'def x := ' + '9' * 400 + '\n')
    one('huge-enum', 'def x := 1E99999999999999999999\n')
    one('long-line', 'def x := ' + ' + '.join(['1'] * 100) + '\n')
    one('long-chain-cmp', 'def x := ' + ' < '.join(['1'] * 60) + '\n')
    one('long-and', 'def x := ' + ' and '.join(['True'] * 80) + '\n')
    one('long-file', ''.join(f'def x{i} := {i}\n' for i in range(140)))
    one('long-calls', 'def f(a: Int, b: Int) -> Int => a + b\ndef y0 := 1\n' + ''.join(f'def y{i} := f({i}, y{i - 1})\n' for i in range(1, 120)))
    for d in (8, 16, 24):
        one(f'deep-paren-{d}', 'def x := ' + '(' * d + '1' + ')' * d + '\n')
        one(f'deep-list-{d}', 'def x := ' + '[' * d + '1' + ']' * d + '\n')
        one(f'deep-call-{d}', 'def f(x: Int) -> Int => x\ndef y := ' + 'f(' * d + '1' + ')' * d + '\n')
        one(f'deep-if-{d}', ''.join('    ' * i + 'if True then\n' for i in range(d)) + '    ' * d + 'print("x")\n')
        one(f'deep-unary-{d}', 'def x := ' + '-' * d + '1\n')
        one(f'deep-not-{d}', 'def x := ' + 'not ' * d + 'True\n')
        one(f'deep-tuple-type-{d}', 'def x: ' + '(' * d + 'Int' + ')' * d + ' := 1\n')
        one(f'deep-generic-{d}', 'def x: ' + 'List[' * d + 'Int' + ']' * d + ' := []\n')
    one('print-shadow', 'def print(x: Int) -> Int => x\nprint(1)\n')
    one('crlf', 'def x := 1\r\ndef y := 2\r\n')
    one('mixed-endings', 'def x := 1\r\ndef y := 2\nprint(x)\r\n')
    one('lone-cr', 'def x := 1\rdef y := 2\n')
    one('tab-indent', 'if True then\n\tprint("x")\n')
    one('odd-indent', 'if True then\n   print("x")\n')
    one('indent-jump', 'if True then\n            print("x")\n')
    one('dedent-partial', 'if True then\n        print("x")\n    print("y")\n')
    one('unicode-id', 'def é := 1\n')
    one('unicode-str', 'def x := "é😀"\nprint(x)\n')
    one('unicode-comment', '# é😀\ndef x := 1\n')
    one('nul', 'def x := 1\x00\n')
    one('bom', '﻿def x := 1\n')
    one('match-no-arms', 'match 1\n')
    one('handle-no-arms', 'def f() -> Int raise [Exception] => 1\nf() handle\n')
    one('class-empty-body', 'class A\n    \n')
    one('def-no-body', 'def f()\n')
    one('init-only', 'class A\n    def init(self) => pass\n')
    one('generic-class', 'class A[T]\n    def x: T\n    def init(self, x: T) => self.x := x\ndef a := A[Int](1)\n')
    one('generic-bad-arity', 'def x: List[Int, Str] := [1]\n')
    one('tuple-arity', 'def (a, b) := (1, 2, 3)\n')
    one('tuple-arity2', 'def (a, b, c) := (1, 2)\n')
    one('self-outside', 'print(self)\n')
    one('return-outside', 'return 1\n')
    one('raise-outside', 'raise Exception("x")\n')
    one('type-alias-self', 'type A: A\n')
    one('type-alias-cond', 'type P: Int when self > 0\ndef p: P := 1\n')
    one('parent-args-mismatch', 'class A(x: Int)\nclass B: A\ndef b := B()\n')
    one('parent-undefined', 'class B: Nope\ndef b := B()\n')
    one('union-type', 'def x: {Int, Str} := 1\n')
    one('question-none', 'def x := None ? None\n')
    one('index-empty', 'def x := [][0]\n')
    one('slice', 'def x := [1, 2, 3]\ndef y := x[0 :: 2]\n')
    one('dict', 'def x := {1 => 2, 3 => 4}\nprint(x[1])\n')
    one('set-builder', 'def x := {a | a in [1, 2], a > 1}\n')
    one('list-builder', 'def x := [a | a in 0 .. 3]\n')
    one('with', 'with open("f") as f do print(f)\n')
    one('import-star', 'from a import b as c, d\nimport e\n')
    one('lambda', 'def f := \\x: Int => x + 1\nprint(f(1))\n')
    one('vararg', 'def f(vararg xs: Int) => print(xs)\nf(1, 2, 3)\n')
    one('fun-as-type', 'def f(g: (Int) -> Int) -> Int => g(1)\n')
    one('neg-step-range', 'for i in 10 .. 0 .. -1 do print(i)\n')
    one('zero-step-range', 'for i in 0 .. 10 .. 0 do print(i)\n')
    one('pass-only', 'pass\n')
    one('underscore', '_\n')
    one('underscore-def', 'def _ := 1\n')
    # positions where the grammar admits a general expression / type but later stages assume a restricted form (each is guarded by an
    # earlier stage: a guard that is loosened, or a form that slips through, meets an `expect`/`panic!` or prints text Python refuses)
    FORMS = ['_', 'q', 'q: Int', 'q: E1', 'E1', '_: E1', '5', '"s"', 'None', 'True', '(qa, qb)', 'q: Nope', '1 + 1', 'ff(1)', '[qa]', 'q.r', 'q: E1, r: E1', 'q: {E1, E2}', 'q: E1?',
             'E1("m")', 'self', 'q: (Int) -> Int', '-1', 'q[0]', '\\z: Int => z']
    PRE = 'class E1(msg: Str): Exception(msg)\nclass E2(msg: Str): Exception(msg)\ndef ff(k: Int) -> Int raise [E1] =>\n    if k > 2 then raise E1("m")\n    k\n'
    for n, form in enumerate(FORMS):
        one(f'form:handle-arm:{n}', PRE + f'def a := ff(10) handle\n    err: E1 => 0 - 1\n    {form} => 0 - 2\nprint(a)\n')
        one(f'form:handle-arm-only:{n}', PRE + f'ff(10) handle\n    {form} => print("h")\n')
        one(f'form:match-arm:{n}', PRE + f'def m := 3\nmatch m\n    {form} => print("a")\n    _ => print("b")\n')
        one(f'form:for-target:{n}', PRE + f'for {form} in [1, 2] do print("x")\n')
        one(f'form:def-target:{n}', PRE + f'def {form} := 3\nprint("x")\n')
        one(f'form:with-alias:{n}', PRE + f'def res := 10\nwith res as {form} do print("w")\n')
        one(f'form:class-name:{n}', PRE + f'class {form}\n    def v: Int := 1\nprint("c")\n')
        one(f'form:parent:{n}', PRE + f'class Kid: {form}\n    def v: Int := 1\nprint("c")\n')
        one(f'form:raises-list:{n}', PRE + f'def g(k: Int) -> Int raise [{form}] => k\nprint("r")\n')
        one(f'form:builder-source:{n}', PRE + f'def b := [z | z in {form}]\nprint("b")\n')
        one(f'form:builder-condition:{n}', PRE + f'def b := [z | z in [1, 2], {form}]\nprint("b")\n')
        one(f'form:lambda-parameter:{n}', PRE + f'def l := \\{form} => 1\nprint("l")\n')
        one(f'form:parameter:{n}', PRE + f'def g({form}) -> Int => 1\nprint("p")\n')
        one(f'form:import-name:{n}', PRE + f'from os import {form}\nprint("i")\n')
        one(f'form:reassign-target:{n}', PRE + f'def t := 1\n{form} := 2\nprint("t")\n')
    TFORMS = ['() -> Int', '(Int) ->', '(Int) -> (Int) -> Int', 'Callable', 'Callable[Int]', 'Callable[[Int], Int]', 'Callable[Int, Int, Int]', '(Int, ) -> Int', '{}', '{Int}', '{Int, }',
              'List', 'List[]', 'List[Int, Int]', 'Tuple', 'Tuple[]', '(Int)', '()', 'Int[Str]', 'Int??', 'None?', '{Int, Str}?', 'Union[Int]', 'Optional', 'Optional[Int, Str]', 'Dict[Int]']
    for n, t in enumerate(TFORMS):
        one(f'type-form:variable:{n}', f'def tv: {t} := 1\nprint("t")\n')
        one(f'type-form:parameter:{n}', f'def tf(a: {t}) -> Int => 1\nprint("t")\n')
        one(f'type-form:return:{n}', f'def tf(a: Int) -> {t} => a\nprint("t")\n')
        one(f'type-form:field:{n}', f'class TC(def tf: {t})\nprint("t")\n')
        one(f'type-form:alias:{n}', f'type TA: {t}\nprint("t")\n')
        one(f'type-form:generic-argument:{n}', f'def tv: List[{t}] := []\nprint("t")\n')
        one(f'type-form:called:{n}', f'def tf(h: {t}) -> Int => h(1)\nprint("t")\n')
    # diagnostics that quote long lines with multi-byte characters (renderers that clip or pad count bytes or characters)
    for ch, cn in (('é', '2byte'), ('∑', '3byte'), ('😀', '4byte')):
        for w_ in (39, 40, 59, 60, 61, 79, 80, 99, 100, 118, 119, 120, 121, 200):
            body = ch * w_
            one(f'wide:{cn}:{w_}:error-next-line', f'def ss := "{body}"\ndef y: Int := ss\n')
            one(f'wide:{cn}:{w_}:error-same-line', f'def ss: Int := "{body}"\n')
            one(f'wide:{cn}:{w_}:error-previous-line', f'def y: Int := "s"\ndef ss := "{body}"\n')
            one(f'wide:{cn}:{w_}:syntax-error-after', f'def ss := "{body}" )\n')
            one(f'wide:{cn}:{w_}:comment-then-error', f'# {body}\ndef y: Int := "s"  # {body}\n')
            one(f'wide:{cn}:{w_}:ascii-prefix', f'def ss := "{"a" * (w_ % 7)}{body}"\ndef y: Int := ss\n')
    # strings nested in the interpolations of strings (each level re-enters the lexer)
    for d in (2, 4, 8, 12, 16, 20, 24, 28):
        src = '"x"'
        for _ in range(d):
            src = '"{' + src + '}"'
        one(f'nested-interpolation-{d}', f'def s := {src}\n')
        one(f'nested-interpolation-print-{d}', f'print({src})\nprint(zq_undefined)\n')
    # multi-file
    A.append(('multi-same-class', [('a.mamba', 'class A\n    def x: Int := 1\n'), ('b.mamba', 'class A\n    def y: Str := "s"\n')]))
    A.append(('multi-import', [('a.mamba', 'class Base\n    def x: Int := 1\n'), ('b.mamba', 'from a import Base\nclass Child: Base\ndef c := Child()\nprint(c.x)\n')]))
    A.append(('multi-cycle', [('a.mamba', 'class A: B\n'), ('b.mamba', 'class B: A\n')]))
    A.append(('multi-one-bad', [('a.mamba', 'def x := 1\n'), ('b.mamba', 'def y := $\n'), ('c.mamba', 'def z: Int := "s"\n')]))
    A.append(('multi-empty', [('a.mamba', ''), ('b.mamba', '\n'), ('c.mamba', 'def x := 1\n')]))
    return A


# ---------------------------------------------------------------------------------- structured generators
TYPE_HEADS = ['Int', 'Str', 'Float', 'Bool', 'Any', 'Complex', 'None', 'Exception', 'Range', 'List', 'Set', 'Dict', 'Tuple', 'Callable', 'Collection',
              'Union', 'Optional', 'Generic', 'T', 'U', 'Foo', 'Node', 'Tree']


def type_expr(r, d=2, names=()):
    """A type expression: well-formed or with wrong arity / odd nesting."""
    heads = TYPE_HEADS + list(names)
    c = r.random()
    if d <= 0 or c < 0.35:
        t = r.choice(heads)
    elif c < 0.7:
        h = r.choice(['List', 'Set', 'Dict', 'Tuple', 'Callable', 'Collection', 'Union'] + list(names))
        n = r.choice([0, 1, 1, 2, 2, 3])
        t = h + '[' + ', '.join(type_expr(r, d - 1, names) for _ in range(n)) + ']'
    elif c < 0.8:
        t = '(' + ', '.join(type_expr(r, d - 1, names) for _ in range(r.choice([0, 1, 2, 3]))) + ')'
    elif c < 0.9:
        t = '(' + ', '.join(type_expr(r, d - 1, names) for _ in range(r.choice([0, 1, 2]))) + ') -> ' + type_expr(r, d - 1, names)
    else:
        t = '{' + ', '.join(type_expr(r, d - 1, names) for _ in range(r.choice([1, 2, 3]))) + '}'
    if r.random() < 0.15:
        t += '?'
    return t


def type_fuzz_program(r):
    """A valid program with type expressions in every position a type can stand; one or two of the
    positions are replaced by a fuzzed (possibly ill-formed: wrong arity, odd nesting) type expression."""
    holes = ['Float', 'Int', 'Int', 'Str', 'Int', 'Int', 'Int', 'Int', 'Int', '(Int) -> Int', 'Int', 'Int', 'List[Int]', 'Int', 'Exception']
    k = len(holes)
    for _ in range(r.choice([1, 1, 1, 2])):
        holes[r.randrange(k)] = type_expr(r, r.choice([0, 1, 1, 2, 3]), ('Shape', 'Box'))
    h = holes
    lines = ['type Shape', f'    def area(self) -> {h[0]}', f'    def scale(self, k: {h[1]}) -> {h[2]}',
             f'class Box(def item: {h[3]})', f'    def other: {h[4]} := 1', f'    def get(self) -> {h[5]} => 1',
             f'type Alias: {h[6]}',
             f'def f(x: {h[7]}, y: Int := 1) -> {h[8]} => x',
             f'def g(h: {h[9]}) -> {h[10]} => h(1)',
             f'def v1: {h[11]} := 1', f'def v2: {h[12]} := [1, 2]', f'def v3: {h[13]}? := None',
             'def risky() -> Int raise [Exception] => 1', 'def w := risky() handle', f'    e: {h[14]} => 1',
             'print(f(v1))']
    if r.random() < 0.3:
        del lines[r.randrange(len(lines))]
    return '\n'.join(lines) + '\n'


def hier_program(r):
    """Random class graphs: generics with differing parameter letters, cycles, diamonds, self reference,
    forward references, undefined parents, plus uses that force class look-up. 1-3 files."""
    n = r.randrange(2, 7)
    names = r.sample(['Node', 'Tree', 'Leaf', 'Base', 'Mid', 'Top', 'Ring', 'Hub'], n)
    gens = {c: r.choice([None, None, 'T', 'U', 'V', 'T, U']) for c in names}
    decls = []
    for c in names:
        g = gens[c]
        head = f'class {c}' + (f'[{g}]' if g else '')
        if r.random() < 0.4:
            head += '(def v: Int)' if not g else f"(def v: {g.split(',')[0].strip()})"
        parents = []
        for p in r.sample(names, r.choice([0, 1, 1, 1, 2])):
            pg = gens[p]
            if pg:
                own = [x.strip() for x in g.split(',')] if g else []
                args = [r.choice(own + ['Int', 'Str']) for _ in pg.split(',')]
                if r.random() < 0.1:
                    args = args[:-1]
                pref = f"{p}[{', '.join(args)}]" if args else p
            else:
                pref = p
            if r.random() < 0.2:
                pref += '(1)'
            parents.append(pref)
        if r.random() < 0.05:
            parents.append('Missing')
        if parents:
            head += ': ' + ', '.join(parents)
        body = []
        if r.random() < 0.5:
            body.append(f'    def size{r.randrange(3)}: Int := {r.randrange(9)}')
        if r.random() < 0.4:
            body.append(f'    def m{r.randrange(3)}(self) -> Int => {r.randrange(9)}')
        decls.append('\n'.join([head] + body))
    uses = []
    for _ in range(r.randrange(1, 4)):
        c = r.choice(names)
        g = gens[c]
        ty = c + ('[' + ', '.join(r.choice(['Int', 'Str']) for _ in g.split(',')) + ']' if g else '')
        k = r.randrange(5)
        if k == 0:
            uses.append(f'def use{len(uses)}(n: {ty}) -> Int => n.size0')
        elif k == 1:
            uses.append(f'def o{len(uses)} := {c}()' if r.random() < 0.5 else f'def o{len(uses)} := {c}(1)')
        elif k == 2:
            uses.append(f'def o{len(uses)}: {ty} := {c}()\nprint(o{len(uses)}.m0())')
        elif k == 3:
            uses.append(f'def xs{len(uses)}: List[{ty}] := []')
        else:
            uses.append(f'def p{len(uses)}(n: {ty}) -> {ty} => n')
    nfiles = r.choice([1, 1, 2, 3])
    if nfiles == 1:
        return [('in.mamba', '\n'.join(decls + uses) + '\n')]
    files = [[] for _ in range(nfiles)]
    for d in decls + uses:
        files[r.randrange(nfiles)].append(d)
    return [(f'h{i}.mamba', '\n'.join(f) + '\n') for i, f in enumerate(files)]
