"""C18 — token positions are exact and indentation tokens are balanced.

Oracle on the real lexer's token stream (hook `verif_hooks::lex`):
 (1) slice: the source text at [start, start+len(spelling)) equals the token's source spelling, and the
     recorded end is the start advanced over that text (multi-line strings advance the line);
     nested f-string tokens are checked against the enclosing source the same way;
 (2) real tokens are ordered and do not overlap;
 (3) indent depth never negative, back to zero before the single, final Eof;
 (4) re-lexing the canonical spelling of the stream yields the same kind sequence."""
import json, os, sys, time
from . import common, inputs
from .common import Partial, Report, Worker, rng, run_shards

PROP = 'C18'
SYN = {'NL', 'Indent', 'Dedent', 'Eof'}


def spelling(kind, lx):
    if kind == 'DocStr':
        return '"""' + lx[2:] + '"""'
    return lx


def shape(kind, lx):
    tags = []
    if kind in ('Str', 'DocStr', 'Comment'):
        body = lx[1:-1] if kind == 'Str' else lx
        if kind == 'Str' and body == '':
            tags.append('empty')
        if '\n' in lx:
            tags.append('multiline')
            if lx.endswith('\n"'):
                tags.append('endsnl')
        if any(ord(c) > 127 for c in lx):
            tags.append('nonascii')
        if '\\' in lx:
            tags.append('escape')
        if kind == 'Str' and '{' in lx:
            tags.append('interp')
    return kind + ('!' + '+'.join(tags) if tags else '')


def oracle(src, toks):
    """Returns list of (violation class, culprit shape). Empty list = held."""
    v = []
    chars = src
    line_start = [0]
    for i, c in enumerate(chars):
        if c == '\n':
            line_start.append(i + 1)
    nlines = len(line_start)

    def absidx(l, c):
        if l < 1 or l > nlines or c < 1:
            return None
        # the column must lie on that line (one past its end is the position of the line break): a position that only
        # denotes the right character when columns are counted on past the end of its line is wrong
        line_end = (line_start[l] - 1) if l < nlines else len(chars)
        if line_start[l - 1] + c - 1 > line_end:
            return None
        return line_start[l - 1] + c - 1

    top = [t for t in toks if t[0] == 0]
    if not top or top[-1][1] != 'Eof' or sum(1 for t in top if t[1] == 'Eof') != 1:
        v.append(('eof', 'Eof'))
    depth = 0
    last_end = 0        # absolute index after the previous real top-level token
    last_real = None    # shape of previous real top-level token
    nest_last_end = {}
    enclosing = None    # (abs start, abs end) of the current enclosing string
    drifted = False
    for (d, kind, lx, sl, sc, el, ec) in toks:
        if kind == 'Indent' and d == 0:
            depth += 1
        if kind == 'Dedent' and d == 0:
            depth -= 1
            if depth < 0:
                v.append(('dedent-underflow', last_real or 'start'))
                depth = 0
        if kind in SYN:
            if d == 0 and kind != 'Eof':
                a = absidx(sl, sc)
                if (a is None or a > len(chars)) and not drifted:
                    v.append(('synthetic-outside', last_real or 'start')); drifted = True
            continue
        sp = spelling(kind, lx)
        sh = shape(kind, lx)
        a = absidx(sl, sc)
        if a is None or a > len(chars):
            if not drifted:
                v.append(('position-outside-text', last_real or sh)); drifted = True
            continue
        got = chars[a:a + len(sp)]
        if got != sp:
            if not drifted:
                # culprit: the previous real token (it moved the caret wrongly) unless this is the first
                v.append(('slice', (last_real if d == 0 else 'nested:' + (last_real or '')) or sh)); drifted = True
            if d == 0:
                last_real = sh
            continue
        nl = sp.count('\n')
        exp_end = (sl + nl, (sc + len(sp)) if nl == 0 else (len(sp) - sp.rfind('\n')))
        if (el, ec) != exp_end:
            v.append(('end', sh))
        if d == 0:
            if a < last_end:
                v.append(('overlap-or-order', sh))
            last_end = a + len(sp)
            last_real = sh
            enclosing = (a, a + len(sp))
            nest_last_end = {}
        else:
            if enclosing and not (enclosing[0] <= a and a + len(sp) <= enclosing[1]):
                v.append(('nested-outside-string', sh))
            if a < nest_last_end.get(d, 0):
                v.append(('nested-order', sh))
            nest_last_end[d] = a + len(sp)
    if depth != 0:
        v.append(('indent-unbalanced', 'Eof'))
    return v


def canonical(toks):
    """Canonical spelling of a top-level token stream."""
    out = []
    level = 0
    line = []
    after_dedent = False
    for (d, kind, lx, *_r) in toks:
        if d != 0:
            continue
        if kind == 'Indent':
            level += 1; after_dedent = False
        elif kind == 'Dedent':
            level -= 1; after_dedent = True
        elif kind == 'NL':
            if after_dedent and not line:
                after_dedent = False
                continue  # the synthetic NL the lexer emits after a dedent
            out.append(' '.join(line)); line = []
        elif kind == 'Eof':
            break
        else:
            after_dedent = False
            if not line:
                line.append('    ' * max(level, 0) + spelling(kind, lx))
            else:
                line.append(spelling(kind, lx))
    if line:
        out.append(' '.join(line))
    return '\n'.join(out)


def kinds(toks):
    return [t[1] for t in toks if t[0] == 0]


def evaluate(w, src, part, origin, relex=True):
    r = w.lex(src)
    k = r.get('k')
    if k == 'err':
        part.count('lex-rejected')
        part.evaluations += 1
        return None
    if k == 'panic':
        # a panic is C03's business; here the input is simply not "accepted by the lexer"
        part.count('lex-panic'); part.evaluations += 1
        return None
    if k != 'ok':
        part.inconc('worker-' + str(k))
        return None
    toks = r['toks']
    v = oracle(src, toks)
    if relex and not v:
        can = canonical(toks)
        r2 = w.lex(can)
        if r2.get('k') != 'ok':
            v.append(('relex-rejected', 'stream'))
        else:
            k1, k2 = kinds(toks), kinds(r2['toks'])
            # trailing NLs are never emitted by the lexer; compare as is
            if k1 != k2:
                i = next((i for i, (a, b) in enumerate(zip(k1, k2)) if a != b), min(len(k1), len(k2)))
                v.append(('relex-kinds', (k1[i] if i < len(k1) else 'Eof')))
    for t in toks:
        part.count('kind:' + t[1])
    if v:
        seen = set()
        for cls, culprit in v:
            sig = f'{cls}:{culprit}'
            if sig in seen:
                continue
            seen.add(sig)
            part.violation(sig, {'kind': 'lex', 'src': src, 'origin': origin, 'violations': [list(x) for x in v][:10]})
    else:
        key = tuple(t[1] for t in toks[:40])
        part.held(key)
        if len(toks) > 6:
            part.sample({'origin': origin, 'src': src[:300], 'tokens': [[t[1], t[2][:20], t[3], t[4], t[5], t[6]] for t in toks[:12]]})
    return toks


SEPS = ['', ' ', '\n', '\n    ']
PAIR_VOCAB = inputs.KEYWORDS + inputs.OPERATORS + ['x', 'y1', 'Int', '1', '007', '2.5', '1E3', '"s"', '""', '"a{x}b"',
                                                    '"a\\"b"', '"l1\nl2"', '"""doc"""', '"""d1\nd2"""', '#c', '"é"']


def shard_pairs(i, n):
    w = Worker(); part = Partial()
    V = PAIR_VOCAB
    idx = 0
    for a in V:
        for b in V:
            for s in SEPS:
                idx += 1
                if idx % n != i:
                    continue
                src = f'{a}{s}{b}\nq w\n'
                evaluate(w, src, part, 'pair', relex=True)
                part.count('pairs')
    w.close()
    return part.dump()


def string_heavy(r):
    parts = []
    for _ in range(r.randrange(1, 8)):
        c = r.randrange(12)
        body = ''.join(r.choice(['a', 'b ', '{x}', '{x + 1}', '\\"', '\\n', '\n', ' ', 'é', '{', '}', '#', "'", '\\\\', '{"in {x}"}', '{f(1) + g("to {y} end")}', '{a + b + "s {c + "t {d}"}"}'])
                       for _ in range(r.randrange(0, 6)))
        if c < 6:
            parts.append(f'def s{len(parts)} := "{body}"')
        elif c < 8:
            parts.append(f'"""{body}"""')
        elif c < 9:
            parts.append(f'print("{body}") # {body.replace(chr(10), "")}')
        elif c < 10:
            parts.append('def e := ""')
        else:
            parts.append(f'    x{len(parts)} << {r.randrange(99)} >> y # c')
    return '\n'.join(parts) + '\nq := 1\n'


def shard_stream(i, n, count):
    w = Worker(); part = Partial()
    corpus = [s for _, s in common.repo_samples('all') if len(s) < 4000]
    for k in range(i, count, n):
        r = rng(PROP, 'stream', k)
        c = r.random()
        if c < 0.55:
            src = inputs.mutate(r.choice(corpus), r); origin = 'mutated-sample'
        elif c < 0.8:
            src = string_heavy(r); origin = 'string-heavy'
        elif c < 0.92:
            src = inputs.soup(r); origin = 'soup'
        else:
            src = inputs.raw(r); origin = 'raw'
        evaluate(w, src, part, origin)
        part.count('origin:' + origin)
    w.close()
    return part.dump()


def shard_samples(i, n):
    w = Worker(); part = Partial()
    for k, (rel, src) in enumerate(common.repo_samples('all')):
        if k % n != i:
            continue
        evaluate(w, src, part, 'sample:' + rel)
        part.count('samples')
        # CRLF variant of the same file
        evaluate(w, src.replace('\r\n', '\n').replace('\n', '\r\n'), part, 'sample-crlf:' + rel)
    w.close()
    return part.dump()


def selftest():
    """Canary: the oracle must see a shifted span and an unbalanced stream."""
    src = 'def x := 1\n'
    good = [[0, 'Def', 'def', 1, 1, 1, 4], [0, 'Id', 'x', 1, 5, 1, 6], [0, 'Assign', ':=', 1, 7, 1, 9], [0, 'Int', '1', 1, 10, 1, 11], [0, 'Eof', '', 1, 12, 1, 12]]
    assert oracle(src, good) == [], oracle(src, good)
    bad = [list(t) for t in good]; bad[2][4] = 8
    assert oracle(src, bad), 'canary: shifted span not seen'
    bad = [list(t) for t in good]; bad.insert(1, [0, 'Indent', '    ', 1, 5, 1, 9])
    assert any(c == 'indent-unbalanced' for c, _ in oracle(src, bad)), 'canary: unbalanced indent not seen'
    bad = [list(t) for t in good]; bad[3][6] = 12
    assert any(c == 'end' for c, _ in oracle(src, bad))


def replay_known(rep):
    w = Worker()
    rep.known_live = {}
    for sig, (wit, what) in rep.known.known.items():
        p = os.path.join(common.ROOT, wit)
        part = Partial()
        try:
            evaluate(w, open(p, encoding='utf-8', newline='').read(), part, 'known')
        except FileNotFoundError:
            raise common.Inconclusive('missing witness ' + wit)
        rep.known_live[sig] = sig in part.violations
        for s, (wt, c) in part.violations.items():
            rep.violation(s, wt)
    for commit, what, wit in rep.known.fixed:
        if not wit:
            continue
        part = Partial()
        evaluate(w, open(os.path.join(common.ROOT, wit), encoding='utf-8', newline='').read(), part, 'fixed:' + wit)
        rep.count('fixed-regressions-replayed')
        for s, (wt, c) in part.violations.items():
            rep.violation(s, wt)
        rep.evaluations += part.evaluations
    w.close()


def sigs_of(w, src):
    part = Partial()
    evaluate(w, src, part, 'shrink')
    return set(part.violations)


def shrink_violations(rep, cap=60):
    from .shrink import shrink_text
    w = Worker()
    for sig in sorted(rep.violations)[:cap]:
        wit = rep.violations[sig]
        small = shrink_text(wit['src'], lambda t: sig in sigs_of(w, t))
        wit['shrunk'] = small
        common.log(f'  {sig}: {small!r}')
    w.close()


def miri_slice(rep, n=160):
    """UB-interpreter slice: the lexer (through the hook) and the Core printer under `cargo +nightly miri run`
    on small inputs. Undefined behaviour reported by Miri is a violation; failing to build/run Miri is only noted."""
    import subprocess
    ins = []
    for k in range(n):
        r = rng(PROP, 'miri', k)
        c = k % 4
        src = (string_heavy(r) if c == 0 else inputs.soup(r) if c == 1 else f'{r.choice(PAIR_VOCAB)}{r.choice(SEPS)}{r.choice(PAIR_VOCAB)}\nq w\n' if c == 2
               else inputs.mutate(r.choice([s_ for _, s_ in common.repo_samples('valid') if len(s_) < 400] or ['def x := 1\n']), r))
        ins.append(src[:300])
    env = dict(common.ENV, MIRIFLAGS='-Zmiri-disable-isolation', CARGO_TARGET_DIR=os.path.join(common.TARGET, 'miri'))
    try:
        p = subprocess.run(['cargo', '+nightly', 'miri', 'run', '--offline', '--'] + [common.hx(x) for x in ins], cwd=os.path.join(common.ROOT, 'miri'), env=env,
                           stdout=subprocess.PIPE, stderr=subprocess.PIPE, text=True, timeout=2400)
    except (subprocess.TimeoutExpired, OSError) as e:
        rep.notes.append({'miri': 'not run: ' + str(e)[:100]}); return
    done = 'miri-slice done' in p.stdout
    if 'Undefined Behavior' in p.stderr or 'error: unsupported operation' in p.stderr:
        first = next((l for l in p.stderr.splitlines() if 'Undefined Behavior' in l or 'unsupported operation' in l), '')
        if 'Undefined Behavior' in first:
            rep.violation('miri-undefined-behaviour:' + first[:80], {'kind': 'miri', 'stderr': p.stderr[-3000:], 'inputs': ins[:5]})
        else:
            rep.notes.append({'miri': 'unsupported operation: ' + first[:120]})
    elif done:
        rep.held(('miri-clean',), n=len(ins))
        rep.count('miri-inputs', len(ins))
        rep.count('miri-lex-ok', p.stdout.count('lex ok'))
        rep.count('miri-printer-trees', p.stdout.count('print '))
    else:
        rep.notes.append({'miri': 'did not finish', 'rc': p.returncode, 'stderr_tail': p.stderr[-300:]})


def main(tier):
    common.build()
    selftest()
    rep = Report(PROP, tier, 'exploration')
    rep.rule = ('one evaluation = one input text lexed by the real lexer (hook) and judged by the slice/end/order/indent/'
                'relex oracle; distinct = distinct token-kind sequences (first 40 kinds) of accepted inputs; non-trivial = '
                'lexer accepted the input')
    rep.assumptions = ['columns are counted in characters (Unicode scalar values), as the lexer iterates chars()',
                       'canonical spelling = source spelling of each token kind (doc-strings as """...""")',
                       'synthetic tokens (NL, Indent, Dedent, Eof) are only required to lie inside the text']
    replay_known(rep)
    for d in run_shards(shard_pairs):
        rep.merge(d)
    for d in run_shards(shard_samples):
        rep.merge(d)
    count = 6000 if tier == 'quick' else 2000000
    for d in run_shards(shard_stream, (count,)):
        rep.merge(d)
    if tier == 'thorough':
        miri_slice(rep)
    shrink_violations(rep)
    npairs = len(PAIR_VOCAB) ** 2 * len(SEPS)
    kinds_seen = sorted(k[5:] for k in rep.cov if k.startswith('kind:'))
    floors = [(f'all {npairs} adjacent pairs evaluated', rep.cov.get('pairs', 0) == npairs),
              ('>= 60 token kinds observed', len(kinds_seen) >= 60),
              ('>= 1000 distinct accepted kind sequences', len(rep.distinct) >= 1000)]
    return rep.finish(floors, extra_cov={'pair_space': npairs, 'token_kinds_seen': len(kinds_seen)}, exhaustive=True)


def replay(path):
    common.build()
    obj = json.load(open(path))
    w = Worker(); part = Partial()
    evaluate(w, obj['witness']['src'], part, 'replay')
    w.close()
    if part.violations:
        for s in part.violations:
            print(f'VIOLATION property={PROP} replay={path}')
            common.log('  sig:', s)
        return 1
    print('replay: held')
    return 0
