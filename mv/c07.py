"""C07 — immutability: `fin` variables, fields and parameters are never reassigned; mutable ones may be."""
from . import vsweep, verdict

PROP = 'C07'


def cells():
    return vsweep.c07_cells()


def main(tier):
    return verdict.run(PROP, tier, cells(), 'exploration',
                       rule=('one evaluation = one sweep cell: definition form (plain, annotated, tuple component, class argument, class body field, parameter) x fin/mutable x '
                             'assignment operator (:= += -= *= ^= <<= >>=) x nesting of the assignment x context, plus assignments through self / fin self / a fin receiver, '
                             'to never-defined names and after shadowing re-definitions; distinct = distinct (group, demanded verdict)'),
                       assumptions=['a parameter is mutable unless declared `fin` (as the tree treats it)', 'for-loop variables cannot be declared fin in the grammar of this tree and are not judged'])


def replay(path):
    return verdict.replay(PROP, path, cells)
