"""Seeded, typed, closed-program generator for the executable core language (see lang.py for the AST).
Built bottom-up from what the tree accepts (DESIGN.md Appendix A). Every generated program terminates
(loops are bounded by construction) and is well-typed by construction; the mutation operators in
mutate.py derive labelled ill-typed / still-conforming variants from it."""
from .lang import INT, FLOAT, STR, BOOL, PRIMS, Hier, is_nullable, strip_null

WORDS = ['a', 'bc', 'x y', 'zz', 'q', 'hello', '']


def lit(t, v):
    return {'k': 'lit', 't': t, 'v': v}


def var(n, t):
    return {'k': 'var', 'n': n, 't': t}


class Gen:
    def __init__(self, r, features=None):
        self.r = r
        self.ctr = 0
        self.funs = []
        self.classes = []
        self.excs = []
        self.hier = None
        self.cov = {}
        self.tuple_vars = set()
        f = {'classes': True, 'exceptions': True, 'nullable': True, 'tuples': True, 'lists': True, 'emptystr': False,
             'float': True, 'handle': True, 'recursion': True, 'size': 1, 'annotate_all': False}
        f.update(features or {})
        self.f = f
        if not f['emptystr']:
            self.words = [w for w in WORDS if w]
        else:
            self.words = WORDS

    def fresh(self, p='v'):
        self.ctr += 1
        return f'{p}{self.ctr}'

    def note(self, construct, ctx):
        key = f'{construct}@{ctx[-1] if ctx else "top"}'
        self.cov[key] = self.cov.get(key, 0) + 1

    # ------------------------------------------------------------------ expressions
    def literal(self, t):
        r = self.r
        if t == INT: return lit(INT, r.choice([0, 1, 2, 3, 5, 7, 10, 12]))
        if t == FLOAT: return lit(FLOAT, r.choice([0.5, 1.5, 2.0, 2.5, 4.0, 10.25]))
        if t == STR: return lit(STR, r.choice(self.words))
        if t == BOOL: return lit(BOOL, r.choice([True, False]))
        raise KeyError(t)

    def vars_of(self, t, env, exact=True):
        return [n for n, (vt, mut) in env.items() if vt == t]

    def expr(self, t, env, d, ctx=()):
        """A side-effect-free expression of exactly type t (t in PRIMS) printable/usable anywhere."""
        r = self.r
        vs = self.vars_of(t, env)
        if d <= 0 or r.random() < 0.22:
            if vs and r.random() < 0.7:
                return var(r.choice(vs), t)
            return self.literal(t)
        c = r.random()
        if c < 0.10:
            fs = [f for f in self.funs if f['ret'] == t and not f.get('raises') and f is not getattr(self, 'current_fun', None)]
            if fs:
                f = r.choice(fs)
                return {'k': 'call', 'f': f['name'], 'args': self.args_for(f['params'], env, d - 1, ctx), 't': t}
        if c < 0.18 and self.f['classes']:
            # field read or method call on an object variable
            objs = [(n, vt) for n, (vt, mut) in env.items() if vt in self.class_names()]
            if objs:
                n, ct = r.choice(objs)
                e = self.member_expr(var(n, ct), ct, t, env, d - 1, ctx)
                if e is not None:
                    return e
        if t == INT:
            op = r.choice(['+', '-', '*', '//', 'mod', '^'])
            self.note('op' + op, ctx)
            if op == '^':
                return {'k': 'bin', 'op': '^', 'l': self.expr(INT, env, d - 1, ctx), 'r': lit(INT, r.choice([0, 1, 2, 3])), 't': INT}
            if op in ('//', 'mod') and r.random() < 0.9:
                return {'k': 'bin', 'op': op, 'l': self.expr(INT, env, d - 1, ctx), 'r': lit(INT, r.choice([1, 2, 3, 5])), 't': INT}
            return {'k': 'bin', 'op': op, 'l': self.expr(INT, env, d - 1, ctx), 'r': self.expr(INT, env, d - 1, ctx), 't': INT}
        if t == FLOAT:
            op = r.choice(['+', '-', '*', '/', 'i/'])
            self.note('fop' + op, ctx)
            if op == 'i/':
                return {'k': 'bin', 'op': '/', 'l': self.literal(INT), 'r': lit(INT, r.choice([1, 2, 4, 5])), 't': FLOAT}
            if op == '/':
                return {'k': 'bin', 'op': '/', 'l': self.expr(FLOAT, env, d - 1, ctx), 'r': lit(FLOAT, r.choice([0.5, 2.0, 4.0])), 't': FLOAT}
            # Float op Int: only an Int *literal* on the right (an Int variable there confuses later inference: known finding)
            return {'k': 'bin', 'op': op, 'l': self.expr(FLOAT, env, d - 1, ctx),
                    'r': self.expr(FLOAT, env, d - 1, ctx) if r.random() < 0.7 else self.literal(INT), 't': FLOAT}
        if t == STR:
            if r.random() < 0.5:
                self.note('str+', ctx)
                return {'k': 'bin', 'op': '+', 'l': self.expr(STR, env, d - 1, ctx), 'r': self.expr(STR, env, d - 1, ctx), 't': STR}
            parts = []
            for _ in range(r.randrange(1, 3)):
                parts.append(r.choice(['<', '-', 'k=', ' ', '>']))
                tt = r.choice([INT, BOOL, FLOAT, STR])
                vs2 = [v for v in self.vars_of(tt, env) if v not in self.tuple_vars]
                if vs2:
                    parts.append(var(r.choice(vs2), tt))
                elif tt != STR:
                    parts.append(self.literal(tt))
            self.note('fstr', ctx)
            return {'k': 'fstr', 'parts': parts, 't': STR}
        if t == BOOL:
            c = r.random()
            if c < 0.4:
                tt = r.choice([INT, INT, FLOAT]); op = r.choice(['<', '<=', '>', '>=', '='])
                self.note('cmp' + op, ctx)
                return {'k': 'bin', 'op': op, 'l': self.expr(tt, env, d - 1, ctx), 'r': self.expr(tt, env, d - 1, ctx), 't': BOOL}
            if c < 0.5:
                op = r.choice(['=', '!='])
                self.note('strcmp' + op, ctx)
                return {'k': 'bin', 'op': op, 'l': self.expr(STR, env, d - 1, ctx), 'r': self.expr(STR, env, d - 1, ctx), 't': BOOL}
            if c < 0.8:
                op = r.choice(['and', 'or'])
                self.note(op, ctx)
                return {'k': 'bin', 'op': op, 'l': self.expr(BOOL, env, d - 1, ctx), 'r': self.expr(BOOL, env, d - 1, ctx), 't': BOOL}
            self.note('not', ctx)
            return {'k': 'not', 'e': self.expr(BOOL, env, d - 1, ctx), 't': BOOL}
        raise KeyError(t)

    def args_for(self, params, env, d, ctx):
        args = []
        for p in params:
            if p.get('d') is not None and self.r.random() < 0.4:
                break
            args.append(self.value(p['t'], env, d, ctx))
        return args

    def value(self, t, env, d, ctx=()):
        """Expression of type t for any type of the fragment (incl. classes, nullable, tuples, lists)."""
        r = self.r
        if t in PRIMS:
            return self.expr(t, env, d, ctx)
        vs = self.vars_of(t, env)
        if vs and r.random() < 0.6:
            return var(r.choice(vs), t)
        if is_nullable(t):
            if r.random() < 0.35:
                return {'k': 'none', 't': 'None'}
            return self.value(strip_null(t), env, d, ctx)
        if t in self.class_names():
            subs = [c for c in self.classes if t in self.hier_now().ancestors(c['name']) and not c.get('abstract') and not c.get('is_exc')]
            c = r.choice(subs)
            return {'k': 'new', 'c': c['name'], 'args': [self.value(a['t'], env, d - 1, ctx) for a in self.ctor_params(c)], 't': c['name']}
        if t.startswith('('):
            from .lang import split_top
            return {'k': 'tup', 'es': [self.value(x, env, d - 1, ctx) for x in split_top(t[1:-1])], 't': t}
        if t.startswith('List['):
            inner = t[5:-1]
            return {'k': 'lst', 'es': [self.value(inner, env, max(d - 1, 0), ctx) for _ in range(r.randrange(1, 4))], 't': t}
        raise KeyError(t)

    def hier_now(self):
        return Hier(self.classes)

    def class_names(self):
        return [c['name'] for c in self.classes if not c.get('is_exc')]

    def ctor_params(self, c):
        init = next((m for m in c.get('members', []) if m['k'] == 'method' and m['name'] == '__init__'), None)
        if init:
            return init['params']
        return c.get('args', [])

    def all_fields(self, cname):
        """(field name, type, mutable) visible on instances of cname (own and inherited)."""
        out = []
        h = self.hier_now()
        for an in h.ancestors(cname):
            c = next((c for c in self.classes if c['name'] == an), None)
            if not c:
                continue
            passed = set()
            for a in c.get('args', []):
                if a.get('field'):
                    out.append((a['n'], a['t'], a.get('mut', True)))
            for m in c.get('members', []):
                if m['k'] == 'field':
                    out.append((m['n'], m['t'], m['mut']))
        return out

    def all_methods(self, cname):
        out = []
        h = self.hier_now()
        for an in h.ancestors(cname):
            c = next((c for c in self.classes if c['name'] == an), None)
            if c:
                out += [m for m in c.get('members', []) if m['k'] == 'method' and m['name'] != '__init__' and not m.get('op') and not m.get('abstract')]
        return out

    def member_expr(self, obj, ct, t, env, d, ctx):
        r = self.r
        flds = [f for f in self.all_fields(ct) if f[1] == t]
        ms = [m for m in self.all_methods(ct) if m.get('ret') == t and not m.get('raises') and not m.get('mutates')
              and m is not getattr(self, 'current_fun', None)]
        if flds and (not ms or r.random() < 0.5):
            f = r.choice(flds)
            self.note('field-read', ctx)
            return {'k': 'fld', 'o': obj, 'f': f[0], 't': t}
        if ms:
            m = r.choice(ms)
            self.note('method-call', ctx)
            return {'k': 'mcall', 'o': obj, 'm': m['name'], 'args': self.args_for(m['params'], env, d, ctx), 't': t}
        return None

    # ------------------------------------------------------------------ statements
    def block(self, env, depth, n, ctx, loopvars=(), in_fun=None):
        r = self.r
        out = []
        env = dict(env)
        for _ in range(n):
            st = self.stmt(env, depth, ctx, loopvars, in_fun)
            if st is None:
                continue
            out += st if isinstance(st, list) else [st]
        if not out:
            out.append({'k': 'print', 'e': self.expr(STR, env, 1, ctx)})
        return out

    def stmt(self, env, depth, ctx, loopvars, in_fun):
        r = self.r
        c = r.random()
        if c < 0.22:
            return self.def_stmt(env, ctx)
        if c < 0.34:
            ms = [n for n, (t, mut) in env.items() if mut and n not in loopvars and t in PRIMS]
            if ms:
                n = r.choice(ms); t = env[n][0]
                if t == INT and r.random() < 0.4:
                    op = r.choice(['+=', '-=', '*='])
                    self.note('aug' + op, ctx)
                    return {'k': 'aug', 'n': n, 'op': op, 'e': self.expr(INT, env, 2, ctx)}
                self.note('assign', ctx)
                return {'k': 'asg', 'n': n, 'e': self.expr(t, env, 3, ctx)}
        if c < 0.52:
            t = r.choice([INT, FLOAT, STR, BOOL] if self.f['float'] else [INT, STR, BOOL])
            self.note('print', ctx)
            return {'k': 'print', 'e': self.expr(t, env, 3, ctx)}
        if c < 0.62 and depth > 0:
            self.note('if', ctx)
            return {'k': 'if', 'c': self.expr(BOOL, env, 2, ctx), 'th': self.block(env, depth - 1, r.randrange(1, 4), ctx + ('then',), loopvars, in_fun),
                    'el': self.block(env, depth - 1, r.randrange(1, 3), ctx + ('else',), loopvars, in_fun) if r.random() < 0.6 else None}
        if c < 0.70 and depth > 0:
            return self.for_stmt(env, depth, ctx, loopvars, in_fun)
        if c < 0.75 and depth > 0:
            k = self.fresh('k'); lim = r.choice([1, 2, 3])
            env2 = dict(env); env2[k] = (INT, True)
            body = self.block(env2, depth - 1, r.randrange(1, 3), ctx + ('while',), loopvars + (k,), in_fun)
            body.append({'k': 'asg', 'n': k, 'e': {'k': 'bin', 'op': '+', 'l': var(k, INT), 'r': lit(INT, 1), 't': INT}})
            env[k] = (INT, True)
            self.note('while', ctx)
            return [{'k': 'def', 'n': k, 't': INT, 'mut': True, 'ann': False, 'e': lit(INT, 0)},
                    {'k': 'while', 'c': {'k': 'bin', 'op': '<', 'l': var(k, INT), 'r': lit(INT, lim), 't': BOOL}, 'body': body}]
        if c < 0.82 and depth > 0:
            return self.match_stmt(env, depth, ctx, loopvars, in_fun)
        if c < 0.88 and self.f['classes']:
            st = self.object_stmt(env, ctx)
            if st:
                return st
        if c < 0.95 and self.f['exceptions'] and self.f['handle'] and depth > 0:
            st = self.handle_stmt(env, depth, ctx, loopvars, in_fun)
            if st:
                return st
        self.note('print', ctx)
        return {'k': 'print', 'e': self.expr(STR, env, 2, ctx)}

    def def_stmt(self, env, ctx):
        r = self.r
        c = r.random()
        n = self.fresh()
        if c < 0.08 and self.f['tuples']:
            t1, t2 = r.choice([INT, STR, BOOL]), r.choice([INT, STR])
            a, b = self.fresh(), self.fresh()
            mut = r.random() < 0.6
            env[a] = (t1, mut); env[b] = (t2, mut)
            self.tuple_vars.update((a, b))
            self.note('deftuple', ctx)
            return {'k': 'deftup', 'ns': [a, b], 'ts': [t1, t2], 'mut': mut,
                    'e': {'k': 'tup', 'es': [self.expr(t1, env_without(env, a, b), 2, ctx), self.expr(t2, env_without(env, a, b), 2, ctx)], 't': f'({t1}, {t2})'}}
        if c < 0.16 and self.f['nullable']:
            t = r.choice([INT, STR, FLOAT, BOOL])
            init = {'k': 'none', 't': 'None'} if r.random() < 0.5 else self.expr(t, env, 1, ctx)
            env[n] = (t + '?', True)
            self.note('def-nullable', ctx)
            out = [{'k': 'def', 'n': n, 't': t + '?', 'mut': True, 'ann': True, 'e': init}]
            if r.random() < 0.5:
                out.append({'k': 'asg', 'n': n, 'e': self.literal(t) if r.random() < 0.6 else {'k': 'none', 't': 'None'}})
            m = self.fresh()
            # `x ? d`: the default must not be a falsy/odd case only: plain expression of T
            out.append({'k': 'def', 'n': m, 't': t, 'mut': False, 'ann': True,
                        'e': {'k': 'qd', 'e': var(n, t + '?'), 'd': self.expr(t, env_without(env, n), 1, ctx), 't': t}})
            env[m] = (t, False)
            self.note('question-default', ctx)
            return out
        if c < 0.24 and self.f['classes'] and self.class_names():
            cn = r.choice([c_['name'] for c_ in self.classes if not c_.get('abstract') and not c_.get('is_exc')])
            decl = cn
            supers = [a for a in self.hier_now().ancestors(cn) if a != cn and a in self.class_names()]
            ann = r.random() < 0.4
            if supers and ann and r.random() < 0.4:
                decl = r.choice(supers)
            e = self.value(cn, env, 2, ctx)
            mut = r.random() < 0.7
            env[n] = (decl if ann else cn, mut)
            self.note('def-object', ctx)
            return {'k': 'def', 'n': n, 't': decl if ann else cn, 'mut': mut, 'ann': ann, 'e': e}
        if c < 0.29 and self.f['lists']:
            it = r.choice([INT, STR])
            e = self.value(f'List[{it}]', env, 1, ctx)
            env[n] = (f'List[{it}]', False)
            self.note('def-list', ctx)
            return {'k': 'def', 'n': n, 't': f'List[{it}]', 'mut': False, 'ann': False, 'e': e}
        t = r.choice([INT, INT, FLOAT, STR, BOOL] if self.f['float'] else [INT, INT, STR, BOOL])
        mut = r.random() < 0.7
        ann = r.random() < 0.4
        c2 = r.random()
        if c2 < 0.15:
            init = {'k': 'ife', 'c': self.expr(BOOL, env, 2, ctx), 'a': self.expr(t, env, 2, ctx), 'b': self.expr(t, env, 2, ctx), 't': t}
            ann = True
            self.note('if-expression', ctx)
        elif c2 < 0.22 and t == FLOAT:
            init = {'k': 'sqrt', 'e': lit(INT, r.choice([4, 9, 2, 16])) if r.random() < 0.5 else self.expr(FLOAT, env, 0, ctx), 't': FLOAT}
            self.note('sqrt', ctx)
        elif c2 < 0.28 and t == INT:
            init = {'k': 'neg', 'e': self.expr(INT, env, 1, ctx), 't': INT}
            ann = True
            self.note('neg', ctx)
        elif c2 < 0.34 and t == FLOAT and ann:
            init = self.expr(INT, env, 2, ctx)       # Int initialiser for a Float variable (subtype)
            self.note('int-to-float', ctx)
        else:
            init = self.expr(t, env, 3, ctx)
        env[n] = (t, mut)
        self.note('def', ctx)
        return {'k': 'def', 'n': n, 't': t, 'mut': mut, 'ann': ann, 'e': init}

    def for_stmt(self, env, depth, ctx, loopvars, in_fun):
        r = self.r
        i = self.fresh('i')
        if self.f['lists'] and r.random() < 0.25:
            lists = [(n, t) for n, (t, m) in env.items() if t.startswith('List[')]
            if lists:
                n, lt = r.choice(lists)
                it = lt[5:-1]
                env2 = dict(env); env2[i] = (it, False)
                self.note('for-in-list', ctx)
                return {'k': 'forin', 'v': i, 'coll': var(n, lt), 'body': self.block(env2, depth - 1, r.randrange(1, 3), ctx + ('for',), loopvars + (i,), in_fun)}
        a = r.choice([0, 1, 2]); b = r.choice([0, 3, 5, 6]); incl = r.random() < 0.5
        step = r.choice([None, None, 1, 2, 3, -1, -2])
        if step is not None and step < 0:
            a, b = b, a
        env2 = dict(env); env2[i] = (INT, False)
        ea, eb = lit(INT, a), lit(INT, b)
        ivs = self.vars_of(INT, env)
        if ivs and r.random() < 0.2 and (step is None or step > 0):
            eb = {'k': 'bin', 'op': 'mod', 'l': var(r.choice(ivs), INT), 'r': lit(INT, 6), 't': INT}
        self.note('for-range' + ('-incl' if incl else '') + ('-step' if step is not None else '') + ('-neg' if step and step < 0 else ''), ctx)
        return {'k': 'for', 'v': i, 'r': {'a': ea, 'b': eb, 'incl': incl, 'step': lit(INT, step) if step is not None else None},
                'body': self.block(env2, depth - 1, r.randrange(1, 3), ctx + ('for',), loopvars + (i,), in_fun)}

    def match_stmt(self, env, depth, ctx, loopvars, in_fun):
        r = self.r
        arms = []; used = set()
        for _ in range(r.randrange(1, 3)):
            v = r.choice([0, 1, 2, 3, 5])
            if v in used:
                continue
            used.add(v)
            arms.append((('lit', INT, v), self.block(env, depth - 1, r.randrange(1, 3), ctx + ('arm',), loopvars, in_fun)))
        if r.random() < 0.4:
            b = self.fresh('b'); env2 = dict(env); env2[b] = (INT, False)
            arms.append((('bind', b), self.block(env2, depth - 1, r.randrange(1, 3), ctx + ('arm',), loopvars, in_fun)))
        else:
            arms.append((('wild',), self.block(env, depth - 1, r.randrange(1, 2), ctx + ('arm',), loopvars, in_fun)))
        self.note('match', ctx)
        return {'k': 'match', 'e': self.expr(INT, env, 2, ctx), 'arms': arms}

    def object_stmt(self, env, ctx):
        r = self.r
        objs = [(n, vt, mut) for n, (vt, mut) in env.items() if vt in self.class_names()]
        if not objs:
            return None
        n, ct, mut = r.choice(objs)
        c = r.random()
        flds = [f for f in self.all_fields(ct) if f[2] and f[1] in PRIMS]
        if c < 0.5 and flds and mut:
            f = r.choice(flds)
            self.note('field-assign', ctx)
            return {'k': 'fasg', 'o': var(n, ct), 'f': f[0], 'e': self.expr(f[1], env, 2, ctx)}
        ms = [m for m in self.all_methods(ct) if not m.get('raises') and (mut or not m.get('mutates'))]
        if ms:
            m = r.choice(ms)
            call = {'k': 'mcall', 'o': var(n, ct), 'm': m['name'], 'args': self.args_for(m['params'], env, 2, ctx), 't': m.get('ret')}
            self.note('method-call-stmt', ctx)
            if m.get('ret') in PRIMS:
                return {'k': 'print', 'e': call}
            return {'k': 'expr', 'e': call}
        return None

    def handle_stmt(self, env, depth, ctx, loopvars, in_fun):
        r = self.r
        fs = [f for f in self.funs if f.get('raises') and f is not getattr(self, 'current_fun', None)]
        if not fs:
            return None
        f = r.choice(fs)
        call = {'k': 'call', 'f': f['name'], 'args': self.args_for(f['params'], env, 1, ctx), 't': f['ret']}
        h = self.hier_now()
        # handled classes: each raised class itself or an ancestor (below Exception or Exception itself)
        arms = []
        covered = set()
        order = list(f['raises'])
        r.shuffle(order)
        for e in order:
            if e in covered:
                continue
            anc = [a for a in h.ancestors(e)]
            cls = r.choice(anc[:2]) if r.random() < 0.4 else e
            if any(cls in h.ancestors(prev) and cls != prev for prev, _, _ in arms) and False:
                pass
            covered.update(x for x in f['raises'] if cls in h.ancestors(x))
            arms.append((cls, 'err', None))
        bind = r.random() < 0.5 and f['ret'] in PRIMS and 'arm' not in ctx
        out_arms = []
        for cls, v, _ in arms:
            body = self.block(env, 0, 1, ctx + ('handle-arm',), loopvars, in_fun)
            if bind:
                body.append({'k': 'val', 'e': self.expr(f['ret'], env, 1, ctx)})
            out_arms.append((cls, v, body))
        # a subclass arm listed after its ancestor would be dead; order subclass first
        out_arms.sort(key=lambda a: -len(h.ancestors(a[0])))
        self.note('handle' + ('-def' if bind else '-stmt'), ctx)
        st = {'k': 'handle', 'e': call, 'arms': out_arms}
        if bind:
            n = self.fresh('h')
            st.update(bind=n, t=f['ret'], mut=False, ann=False)
            env[n] = (f['ret'], False)
        return st

    # ------------------------------------------------------------------ functions
    def body(self, t, env, depth, ctx):
        """Function body whose value has type t: statements then a tail (implicit value / return / if / match)."""
        r = self.r
        env = dict(env)
        pre = []
        for _ in range(r.randrange(0, 3)):
            st = self.stmt(env, min(depth, 1), ctx, (), t)
            if st is not None:
                pre += st if isinstance(st, list) else [st]
        c = r.random()
        if depth > 0 and c < 0.25:
            self.note('tail-if', ctx)
            return pre + [{'k': 'if', 'c': self.expr(BOOL, env, 2, ctx), 'th': self.body(t, env, depth - 1, ctx + ('then',)),
                           'el': self.body(t, env, depth - 1, ctx + ('else',))}]
        if depth > 0 and c < 0.42:
            vals = r.sample([0, 1, 2, 3], r.randrange(1, 3))
            arms = [(('lit', INT, v), self.body(t, env, depth - 1, ctx + ('arm',))) for v in vals]
            arms.append((('wild',), self.body(t, env, depth - 1, ctx + ('arm',))))
            self.note('tail-match', ctx)
            return pre + [{'k': 'match', 'e': self.expr(INT, env, 2, ctx), 'arms': arms}]
        if c < 0.55:
            self.note('tail-return', ctx)
            return pre + [{'k': 'ret', 'e': self.value(t, env, 3, ctx)}]
        self.note('tail-value', ctx)
        return pre + [{'k': 'val', 'e': self.value(t, env, 3, ctx)}]

    def params(self, n=None):
        r = self.r
        ps = []; dfl = False
        for _ in range(r.randrange(0, 4) if n is None else n):
            pt = r.choice([INT, INT, FLOAT, STR, BOOL] if self.f['float'] else [INT, INT, STR, BOOL])
            pn = self.fresh('p')
            d = None
            if dfl or r.random() < 0.25:
                dfl = True; d = self.literal(pt)
            ps.append({'n': pn, 't': pt, 'd': d})
        return ps

    def fun(self):
        r = self.r
        name = self.fresh('f')
        ps = self.params()
        t = r.choice([INT, INT, FLOAT, STR, BOOL] if self.f['float'] else [INT, INT, STR, BOOL])
        env = {p['n']: (p['t'], False) for p in ps}
        f = {'name': name, 'params': ps, 'ret': t, 'raises': [], 'body': None}
        self.current_fun = f
        if self.excs and r.random() < 0.45:
            # a function that may raise: guarded raise statements first
            raises = r.sample([e['name'] for e in self.excs], r.randrange(1, min(2, len(self.excs)) + 1))
            f['raises'] = raises
            pre = []
            ints = [p['n'] for p in ps if p['t'] == INT]
            for e in raises:
                cond = ({'k': 'bin', 'op': '>', 'l': var(r.choice(ints), INT), 'r': lit(INT, r.choice([1, 2, 4])), 't': BOOL}
                        if ints else self.expr(BOOL, env, 1, ('fun',)))
                pre.append({'k': 'if', 'c': cond, 'th': [{'k': 'raise', 'c': e, 'msg': r.choice(['m', 'big', 'bad'])}], 'el': None})
            self.note('raise', ('fun',))
            f['body'] = pre + self.body(t, env, 1, ('fun',))
        else:
            f['body'] = self.body(t, env, 2, ('fun',))
        self.current_fun = None
        return f

    # ------------------------------------------------------------------ classes
    def exc_classes(self):
        r = self.r
        n = r.randrange(1, 4)
        out = []
        for i in range(n):
            name = self.fresh('E').replace('E', 'Err')
            parent = r.choice(['Exception'] + [e['name'] for e in out]) if out and r.random() < 0.6 else 'Exception'
            out.append({'name': name, 'is_exc': True, 'args': [{'n': 'msg', 't': STR, 'field': False}],
                        'parents': [{'name': parent, 'args': [var('msg', STR)]}], 'members': []})
        return out

    def klass(self, parent=None):
        r = self.r
        name = 'C' + self.fresh('').strip()
        c = {'name': name, 'args': [], 'parents': [], 'members': []}
        inherited = set()
        if parent is not None:
            inherited = {f[0] for f in self.all_fields(parent['name'])} | {m['name'] for m in self.all_methods(parent['name'])}
            pargs = []
            for a in self.ctor_params(parent):
                # pass-through arguments keep the parent's name (not re-declared as fields here)
                c['args'].append({'n': a['n'], 't': a['t'], 'field': False})
                pargs.append(var(a['n'], a['t']))
            c['parents'] = [{'name': parent['name'], 'args': pargs}]
        for _ in range(r.randrange(0, 3)):
            t = r.choice([INT, STR, BOOL, INT])
            c['args'].append({'n': self.fresh('a'), 't': t, 'field': True, 'mut': True})
        # body fields and methods, interleaved
        nf, nm = r.randrange(0, 3), r.randrange(1, 4)
        kinds = ['f'] * nf + ['m'] * nm
        r.shuffle(kinds)
        self.classes.append(c)
        for kind in kinds:
            if kind == 'f':
                t = r.choice([INT, STR, BOOL])
                c['members'].append({'k': 'field', 'n': self.fresh('g'), 't': t, 'mut': r.random() < 0.7, 'e': self.literal(t)})
            else:
                c['members'].append(self.method(c))
        return c

    def method(self, c):
        r = self.r
        name = self.fresh('m')
        ps = self.params(r.randrange(0, 3))
        t = r.choice([INT, STR, BOOL])
        env = {p['n']: (p['t'], False) for p in ps}
        fin_self = r.random() < 0.3
        env['self'] = (c['name'], not fin_self)
        m = {'k': 'method', 'name': name, 'params': ps, 'ret': t, 'raises': [], 'self': 'fin' if fin_self else 'self', 'body': None}
        self.current_fun = m
        pre = []
        flds = [f for f in self.all_fields(c['name']) if f[2] and f[1] in (INT, STR)]
        if flds and not fin_self and r.random() < 0.5:
            f = r.choice(flds)
            new = ({'k': 'bin', 'op': '+', 'l': {'k': 'fld', 'o': var('self', c['name']), 'f': f[0], 't': f[1]},
                    'r': self.expr(f[1], {k: v for k, v in env.items() if k != 'self'}, 1, ('method',)), 't': f[1]})
            pre.append({'k': 'fasg', 'o': var('self', c['name']), 'f': f[0], 'e': new})
            m['mutates'] = True
            self.note('self-field-update', ('method',))
        m['body'] = pre + self.body(t, env, 1, ('method',))
        self.current_fun = None
        return m

    # ------------------------------------------------------------------ program
    def program(self):
        r = self.r
        if self.f['exceptions'] and r.random() < 0.6:
            self.excs = self.exc_classes()
            self.classes += self.excs
        if self.f['classes'] and r.random() < 0.7:
            c1 = self.klass()
            if r.random() < 0.5:
                self.klass(parent=c1 if r.random() < 0.7 else None)
        big = self.f['size'] >= 2
        for _ in range(r.randrange(1, 4 if big else 3)):
            self.funs.append(self.fun())
        main = self.block({}, 2, r.randrange(4, 10) if big else r.randrange(3, 7), ('top',))
        prog = {'classes': self.classes, 'funs': self.funs, 'main': main}
        if self.f['annotate_all']:
            annotate_all(prog)
        return prog


def env_without(env, *names):
    return {k: v for k, v in env.items() if k not in names}


def generate(r, features=None):
    g = Gen(r, features)
    p = g.program()
    return p, g.cov


def walk_blocks(prog):
    """Yield every statement list of a program (for whole-program transformations)."""
    def rec(b):
        yield b
        for st in b:
            for key in ('th', 'el', 'body'):
                if isinstance(st.get(key), list):
                    yield from rec(st[key])
            if st['k'] == 'match':
                for _, body in st['arms']:
                    yield from rec(body)
            if st['k'] == 'handle':
                for _, _, body in st['arms']:
                    yield from rec(body)
    yield from rec(prog.get('main', []))
    for f in prog.get('funs', []):
        yield from rec(f['body'])
    for c in prog.get('classes', []):
        for m in c.get('members', []):
            if m['k'] == 'method' and m.get('body'):
                yield from rec(m['body'])


def annotate_all(prog):
    for b in walk_blocks(prog):
        for st in b:
            if st['k'] == 'def' and st['t']:
                st['ann'] = True
            if st['k'] == 'handle' and st.get('bind'):
                st['ann'] = True
