"""C09 — definite assignment: no read of a possibly undefined variable or field."""
from . import vsweep, verdict

PROP = 'C09'


def cells():
    return vsweep.c09_cells()


def main(tier):
    return verdict.run(PROP, tier, cells(), 'exploration',
                       rule=('one evaluation = one sweep cell: placement of the definition relative to the use (never, before, later, one branch, both branches, one/all match arms, '
                             'loop body, loop/match/comprehension variable outside its scope, handle arm, shadowing, nesting depth 1-3, tuple definitions, constructor fields) x form of '
                             'the use (print, initialiser, argument, condition, interpolation) x context; accept iff every path to the use defines the name; '
                             'distinct = distinct (group, demanded verdict)'),
                       assumptions=['a loop body may execute zero times, so a definition inside it does not reach the code after the loop',
                                    'the body of a top-level function may refer to a function defined later in the file (calls happen after all definitions); module-level '
                                    'code may not (the statement: "defined only later" is rejected)'])


def replay(path):
    return verdict.replay(PROP, path, cells)
