"""C03 — totality: any input yields output or diagnostics, never a crash or hang.

Events that refute it: worker death (signal / abort / stack overflow), a Rust panic caught by
catch_unwind (incl. the armed step-budget panic = logical-time bound exceeded), a rejection with an
empty diagnostics list. Observed on the overflow-checked monitor build; a sample is replayed on the
plain release build (what users install) and verdict differences between the two builds are reported.

Stated bounds: input <= 4 KiB and <= 150 lines per file, nesting <= 24, <= 5 files, 8 MiB stack;
logical time: steps(input) <= 4000 + 40*(t+1)^2, t = number of tokens (bytes/2 if lexing fails)."""
import json, os, re, subprocess, tempfile, time
from . import common, inputs
from .common import Partial, Report, Worker, rng, run_shards

PROP = 'C03'
MAXB = 4096
MAXL = 150
STAGES = {0: 'none', 1: 'parse', 2: 'context', 3: 'check', 4: 'generate', 5: 'done'}
SITES = ['lex_char', 'peek_while_fn', 'unify_link', 'unify_sub_expr', 'unify_sub_ty', 'context_class', 'class_has_parent',
         'constrain_generate']


def clip(src):
    b = src.encode('utf-8', 'replace')[:MAXB]
    src = b.decode('utf-8', 'ignore')
    lines = src.split('\n')
    if len(lines) > MAXL:
        src = '\n'.join(lines[:MAXL])
    return src


def budget_for(w, files):
    """The step budget of a pipeline call from the number of tokens. The tokens are counted by the real lexer, itself under a
    budget from the number of characters (a lexer that does not finish in time is a violation, not a missing measurement)."""
    t = 0
    for _, src in files:
        r = w.lex(src, budget=4000 + 40 * (len(src) + 1) ** 2)
        if r.get('k') == 'ok':
            t += len(r['toks'])
        else:
            if r.get('k') == 'panic' and r.get('msg', '').startswith('verif: step budget'):
                return ('lexer', r.get('msg')), len(src)
            t += len(src.encode('utf-8', 'replace')) // 2
    return 4000 + 40 * (t + 1) ** 2, t


def norm_msg(m):
    m = re.sub(r'`[^`]*`|\'[^\']*\'|"[^"]*"', 'Q', m)
    m = re.sub(r'\d+', 'N', m)
    return m[:120]


def clean_fn(f):
    """`mamba::a::b::f` from a frame string, or None if the frame is not a plain mamba function."""
    f = f.strip()
    m = re.match(r'<?(mamba::[A-Za-z0-9_:]+)', f)
    if not m:
        return None
    name = m.group(1).rstrip(':')
    m2 = re.match(r'<mamba::[A-Za-z0-9_:]+(?:<[^>]*>)? as [^>]+>::([A-Za-z0-9_]+)', f)
    if m2:
        name += '::' + m2.group(1)
    return name


def frame_of(frames):
    for f in frames:
        c = clean_fn(f)
        if c and 'verif_hooks' not in c:
            return '::'.join(c.split('::')[-3:])
    return '?'


def shape_tags(files):
    """Cause tags found in an input by small detectors (so that a known complexity finding stays narrow)."""
    parents = {}
    for _, src in files:
        for m in re.finditer(r'^\s*class\s+(\w+)[^:\n]*:\s*([^\n]*)$', src, re.M):
            ps = [re.match(r'\s*(\w+)', p).group(1) for p in m.group(2).split(',') if re.match(r'\s*(\w+)', p)]
            parents[m.group(1)] = ps

    def anc(c, seen=()):
        out = set()
        for p in parents.get(c, []):
            if p not in seen:
                out |= {p} | anc(p, seen + (c,))
        return out
    tags = []
    for c, ps in parents.items():
        if len(ps) >= 2:
            sets = [anc(p) | {p} for p in ps]
            if any(sets[i] & sets[j] for i in range(len(sets)) for j in range(i + 1, len(sets))):
                tags.append('diamond-inheritance'); break
    return '+'.join(tags) or 'no-tag'


def crash_sig(files, annotate):
    """A dead worker has no backtrace: re-run the request under gdb and take the distinct mamba
    functions of the innermost frames (symbolised) as the signature."""
    req = '\t'.join(['pipe', '1' if annotate else '0', '0', ''] + Worker._files(files))
    with tempfile.NamedTemporaryFile('w', suffix='.req', delete=False, dir=common.TARGET) as f:
        f.write(req)
        path = f.name
    try:
        p = subprocess.run(['gdb', '-batch', '-nx', '-ex', 'run', '-ex', 'bt 60', '--args', common.MVH, 'oneshot', path],
                           stdout=subprocess.PIPE, stderr=subprocess.STDOUT, text=True, timeout=120)
        fns = []
        for line in p.stdout.splitlines():
            m = re.match(r'#\d+\s+(?:0x[0-9a-f]+ in )?(.*?) \(', line)
            if m:
                c = clean_fn(m.group(1))
                if c:
                    c = '::'.join(c.split('::')[-3:])
                    if c not in fns:
                        fns.append(c)
        sigkind = 'overflow' if 'SIGSEGV' in p.stdout or 'overflowed its stack' in p.stdout else 'abort'
        return f"{sigkind}:" + '+'.join(sorted(fns)[:6]) if fns else f'{sigkind}:unknown-stack'
    except Exception as e:
        return 'death:unknown-stack'
    finally:
        os.unlink(path)


def evaluate(w, files, annotate, part, origin, wp=None):
    """files: [(path, src)]. Returns the response."""
    budget, t = budget_for(w, files)
    wit = {'kind': 'pipe', 'files': files, 'annotate': annotate, 'origin': origin}
    if isinstance(budget, tuple):
        part.violation('steps:lex_chars:while-counting-tokens:' + shape_tags(files), dict(wit, characters=t, msg=budget[1]))
        return {'k': 'panic', 'msg': budget[1]}
    r = w.pipe(files, annotate=annotate, budget=budget)
    k = r.get('k')
    if k == 'timeout':
        part.inconc('watchdog')     # wall clock is never a verdict
        part.sample({'watchdog-input': files}, cap=5)
        return r
    if k in ('garbled', 'badreq'):
        part.inconc('worker-' + k)
        return r
    steps = r.get('steps') or []
    tot = sum(steps)
    if k == 'dead':
        part.violation('DEAD', dict(wit, death=r))      # signature resolved by the parent (needs gdb)
        return r
    if k == 'panic':
        msg = r.get('msg', '')
        if msg.startswith('verif: step budget'):
            site = re.search(r'exceeded at (\w+)', msg)
            part.violation('steps:' + (site.group(1) if site else '?') + ':' + shape_tags(files), dict(wit, tokens=t, budget=budget, msg=msg))
        else:
            part.violation(f"panic:{r.get('loc', '')}:{frame_of(r.get('frames', []))}:{norm_msg(msg)}", dict(wit, msg=msg, frames=r.get('frames', [])[:8]))
        return r
    stage = STAGES.get(r.get('stage', 0), '?')
    if k == 'err':
        if not r.get('errs'):
            part.violation('empty-diagnostics:' + stage, wit)
            return r
        part.count('rejected-at:' + stage)
        part.held(('err', stage, origin.split(':')[0], min(t // 20, 10)))
    else:
        part.count('accepted')
        part.held(('ok', origin.split(':')[0], min(t // 20, 10)))
    if t > 8 and part.evaluations % 97 == 0:
        part.sample({'origin': origin, 'annotate': annotate, 'files': [[p, s_[:240]] for p, s_ in files][:2], 'verdict': k,
                     'stage': stage, 'first_diagnostic': (r.get('errs') or [''])[0][:160], 'steps': tot, 'budget': budget})
    ratio = tot / budget
    part.cov['max-step-ratio-x1e6'] = max(part.cov.get('max-step-ratio-x1e6', 0), int(ratio * 1e6))
    if tot and ratio > part.cov.get('_maxr', 0):
        part.cov['_maxr'] = ratio
        part.cov['_maxr_input'] = {'origin': origin, 'tokens': t, 'steps': dict(zip(SITES, steps)), 'ratio': round(ratio, 5)}
    # the plain release build (wrapping arithmetic) must give the same verdict
    if wp is not None:
        r2 = wp.pipe(files, annotate=annotate)
        k2 = r2.get('k')
        part.count('plain-build-replays')
        if k2 == 'dead':
            part.violation('DEAD-plain', dict(wit, death=r2))
        elif k2 == 'panic':
            part.violation(f"plain-panic:{frame_of(r2.get('frames', []))}:{norm_msg(r2.get('msg', ''))}", dict(wit, msg=r2.get('msg')))
        elif k2 in ('ok', 'err') and k2 != k:
            # a verdict that is unstable on ONE build is nondeterminism (C12's business), not a divergence
            again = [w.pipe(files, annotate=annotate).get('k') for _ in range(4)]
            again2 = [wp.pipe(files, annotate=annotate).get('k') for _ in range(4)]
            if all(x == k for x in again) and all(x == k2 for x in again2):
                part.violation(f'build-divergence:{k}-vs-{k2}:{stage}', dict(wit, checked=k, plain=k2))
            else:
                part.count('nondeterministic-verdict-left-to-C12')
    return r


def make_input(r, corpus, k):
    c = r.random()
    if c < 0.08:
        return inputs.hier_program(r), 'hierarchy'
    if c < 0.16:
        return [('in.mamba', clip(inputs.type_fuzz_program(r)))], 'typefuzz'
    if c < 0.62:
        rel, src = r.choice(corpus)
        return [(rel, clip(inputs.mutate(src, r)))], 'mutated:' + rel
    if c < 0.72:
        n = r.randrange(2, 6)
        files = []
        for j in range(n):
            rel, src = r.choice(corpus)
            files.append((f'f{j}.mamba', clip(inputs.mutate(src, r) if r.random() < 0.7 else src)))
        return files, 'multi'
    if c < 0.87:
        return [('in.mamba', clip(inputs.soup(r)))], 'soup'
    return [('in.mamba', clip(inputs.raw(r)))], 'raw'


def shard_stream(i, n, count, plain_every):
    w = Worker(watchdog=60); wp = Worker(common.MVH_PLAIN, watchdog=60) if plain_every else None
    part = Partial()
    corpus = [(rel, s) for rel, s in common.repo_samples('all') if len(s) < 3000]
    for k in range(i, count, n):
        r = rng(PROP, 'stream', k)
        files, origin = make_input(r, corpus, k)
        evaluate(w, files, r.random() < 0.5, part, origin, wp if (plain_every and k % plain_every == 0) else None)
        part.count('origin:' + origin.split(':')[0])
    w.close()
    if wp: wp.close()
    return part.dump()


def shard_catalogue(i, n):
    w = Worker(watchdog=60); wp = Worker(common.MVH_PLAIN, watchdog=60); part = Partial()
    cat = inputs.adversarial()
    for k, (tag, files) in enumerate(cat):
        if k % n != i:
            continue
        for ann in (True, False):
            evaluate(w, files, ann, part, 'adversarial:' + tag, wp)
        part.count('catalogue-shapes')
    # every repository sample, unmodified
    for k, (rel, src) in enumerate(common.repo_samples('all')):
        if k % n != i or len(src) > MAXB:
            continue
        evaluate(w, [(rel, src)], True, part, 'sample:' + rel)
    w.close(); wp.close()
    return part.dump()


def resolve_deaths(rep):
    """Replace the placeholder DEAD signatures by gdb-symbolised ones (parent process, sequential)."""
    for key in ('DEAD', 'DEAD-plain'):
        if key in rep.violations or key in rep.known_hits:
            pass
    return


def post(rep, parts):
    """Merge shard partials; DEAD placeholders get their real signature first (one gdb run per distinct input,
    capped), so that known-finding matching sees the final signature."""
    resolved = 0
    for d in parts:
        newv = []
        for sig, wit, n in d['violations']:
            if sig in ('DEAD', 'DEAD-plain'):
                if resolved < 12:
                    real = crash_sig(wit['files'], wit['annotate'])
                    resolved += 1
                else:
                    real = 'death:unresolved-too-many'
                sig = ('plain-' if sig == 'DEAD-plain' else '') + real
            newv.append((sig, wit, n))
        d['violations'] = newv
        maxr = d['cov'].pop('_maxr', None); maxi = d['cov'].pop('_maxr_input', None)
        if maxr is not None and maxr > getattr(rep, '_maxr', 0):
            rep._maxr = maxr; rep._maxr_input = maxi
        m = d['cov'].pop('max-step-ratio-x1e6', 0)
        rep.cov['max-step-ratio-x1e6'] = max(rep.cov.get('max-step-ratio-x1e6', 0), m)
        rep.merge(d)


def replay_entries(rep):
    w = Worker(); wp = Worker(common.MVH_PLAIN)
    rep.known_live = {}
    entries = [(sig, wit) for sig, (wit, _) in rep.known.known.items()] + [(None, x[2]) for x in rep.known.fixed if x[2]]
    for sig, wit in entries:
        obj = json.load(open(os.path.join(common.ROOT, wit)))
        part = Partial()
        evaluate(w, [tuple(f) for f in obj['files']], obj.get('annotate', True), part, 'finding:' + wit, wp)
        d = part.dump()
        post_one = Report.__new__(Report)
        vs = []
        for s, wt, n in d['violations']:
            if s in ('DEAD', 'DEAD-plain'):
                s = ('plain-' if s == 'DEAD-plain' else '') + crash_sig(wt['files'], wt['annotate'])
            vs.append(s)
            rep.violation(s, wt)
        if sig is not None:
            rep.known_live[sig] = sig in vs
        else:
            rep.count('fixed-regressions-replayed')
    w.close(); wp.close()


def valgrind_slice(rep, n=120):
    """Second opinion on dependency code (nom, glob, hashbrown ...): memcheck on the plain worker."""
    corpus = [(rel, s) for rel, s in common.repo_samples('all') if len(s) < 1500]
    lines = []
    for k in range(n):
        r = rng(PROP, 'valgrind', k)
        files, origin = make_input(r, corpus, k)
        lines.append('\t'.join(['pipe', '1', '0', ''] + Worker._files(files)))
    log = os.path.join(common.TARGET, 'valgrind.log')
    try:
        p = subprocess.run(['valgrind', '-q', '--error-exitcode=9', '--log-file=' + log, common.MVH_PLAIN, 'serve'],
                           input='\n'.join(lines) + '\n', stdout=subprocess.PIPE, stderr=subprocess.PIPE, text=True, timeout=1500)
    except subprocess.TimeoutExpired:
        rep.inconc('valgrind-timeout'); return
    answered = len(p.stdout.splitlines())
    errs = open(log).read() if os.path.exists(log) else ''
    blocks = len(re.findall(r'==\d+== (Invalid|Conditional jump|Use of uninitialised|Mismatched|Source and destination)', errs))
    rep.count('valgrind-inputs', answered)
    rep.count('valgrind-error-blocks', blocks)
    if blocks:
        first = re.search(r'==\d+== ((?:Invalid|Conditional|Use of|Mismatched|Source)[^\n]*)', errs).group(1)
        rep.violation('memcheck:' + norm_msg(first), {'kind': 'valgrind', 'log': errs[:3000]})
    else:
        rep.held(('valgrind-clean',), n=answered)


def main(tier):
    common.build(plain=True)
    rep = Report(PROP, tier, 'exploration')
    rep.rule = ('one evaluation = one input (1-5 files, <= 4 KiB each) run through the real mamba_to_python in a worker process '
                'with the step budget armed; distinct = distinct (verdict, rejecting stage, input stream, token-count bucket); '
                'non-trivial = the pipeline returned (output or diagnostics) and was judged by the crash/step/diagnostics oracle')
    rep.assumptions = ['bounds: <= 4 KiB and <= 150 lines per file, <= 5 files, nesting <= 24, 8 MiB stack',
                       'logical time bound: sum of hook counters <= 4000 + 40*(tokens+1)^2; wall clock only as a 20 s watchdog => inconclusive',
                       'monitor build = release + overflow-checks + debug-assertions; a sample is replayed on the plain release build']
    # canary: the observer must see a panic and a budget violation
    w = Worker()
    r = w.pipe('def x := 1\n' * 30, budget=10)
    if not (r.get('k') == 'panic' and 'step budget' in r.get('msg', '')):
        raise common.Inconclusive('canary: armed step budget did not fire: ' + str(r)[:200])
    w.close()
    replay_entries(rep)
    post(rep, run_shards(shard_catalogue))
    count = 60000 if tier == 'quick' else 1500000
    post(rep, run_shards(shard_stream, (count, 50)))
    if tier == 'thorough':
        valgrind_slice(rep)
    if hasattr(rep, '_maxr_input'):
        rep.notes.append({'max_step_ratio_observed': rep._maxr_input})
    ncat = len(inputs.adversarial())
    floors = [('accepted inputs >= 500', rep.cov.get('accepted', 0) >= 500),
              ('rejected at parse >= 100', rep.cov.get('rejected-at:parse', 0) >= 100),
              ('rejected at check >= 100', rep.cov.get('rejected-at:check', 0) >= 100),
              ('rejected at context >= 20', rep.cov.get('rejected-at:context', 0) >= 20),
              (f'all {ncat} catalogue shapes executed', rep.cov.get('catalogue-shapes', 0) == ncat)]
    return rep.finish(floors)


def replay(path):
    common.build(plain=True)
    obj = json.load(open(path))['witness']
    w = Worker(); wp = Worker(common.MVH_PLAIN); part = Partial()
    if obj.get('kind') == 'valgrind':
        print('valgrind findings are replayed by the thorough tier'); return 0
    evaluate(w, [tuple(f) for f in obj['files']], obj.get('annotate', True), part, 'replay', wp)
    w.close(); wp.close()
    if part.violations:
        for s in part.violations:
            common.log('  sig:', s)
        print(f'VIOLATION property={PROP} replay={path}')
        return 1
    print('replay: held')
    return 0
