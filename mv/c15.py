"""C15 — renaming user identifiers commutes with transpilation.

For a program P (generator AST) and an injective renaming rho of its user-chosen names into fresh legal
names: verdict(rho P) == verdict(P), ast(out(rho P)) == rho(ast(out(P))), and the executed behaviour is
unchanged. One name at a time into an adversarial pool (so the culprit is identified), plus random full
renamings."""
import ast, copy, json, os, re
from . import common, lang, gen, sweeps, behave
from .common import Partial, Report, Worker, rng, run_shards
from .sweeps import L, V, B, P, D, CALL, FUN, VAL, IF, FOR, MATCH, EXC, RAISE, HANDLE, FS

PROP = 'C15'
NEVER = {'self', '__init__', 'print', 'Exception', 'Int', 'Str', 'Float', 'Bool', 'None', 'True', 'False', 'List', 'Set', 'Any'}
ADVERSARIAL = ['size', 'init', 'super', 'math', 'typing', 'abc', 'Optional', 'Union', 'NewType', 'ABC', 'abstractmethod', 'int', 'str', 'float', 'bool', 'list', 'set', 'dict',
               'isinstance', 'slice', 'value', 'value_', 'other', 'cls', 'object', 'type_', 'len', 'sum', 'id', 'name2', 'x1', 'x_', '_x', '__x', 'x__', '_', 'q', 'I', 'O0',
               'a' * 40, 'Sqrt', 'Print', 'sqrt_', 'mod_', 'handle_', 'Tuple_', 'Callable_', 'main', 'result', 'e', 'err2', 'args', 'kwargs', 'range_',
               'next', 'iter', 'hash', 'repr', 'contains', 'eq', 'call', 'getitem', 'enter', 'exit', 'new', 'del_']
ORDINARY = ['alpha', 'beta', 'gamma', 'delta', 'total', 'count', 'amount', 'step', 'walk', 'item', 'node', 'left', 'right', 'flag', 'name', 'label', 'idx', 'acc', 'tmp', 'res',
            'zeta', 'omega', 'kappa', 'sigma', 'theta', 'lam', 'mu', 'nu', 'xi', 'rho', 'tau', 'phi', 'chi', 'psi', 'first', 'second', 'third', 'head', 'tail', 'body']
MAMBA_KW = {'from', 'type', 'class', 'pure', 'as', 'import', 'forward', 'vararg', 'def', 'fin', 'and', 'or', 'not', 'is', 'isa', 'mod', 'sqrt', 'while', 'for', '_and_', '_or_',
            '_xor_', '_not_', 'if', 'else', 'match', 'continue', 'break', 'return', 'then', 'do', 'with', 'in', 'raise', 'handle', 'when', 'pass', '_',
            'assert', 'async', 'await', 'del', 'elif', 'except', 'finally', 'global', 'lambda', 'nonlocal', 'try', 'yield'}
POOL = [n for n in ADVERSARIAL if n not in MAMBA_KW]


def slot_kind(name, prog):
    if any(c['name'] == name for c in prog.get('classes', [])):
        return 'exception-class' if any(c['name'] == name and c.get('is_exc') for c in prog['classes']) else 'class'
    if any(f['name'] == name for f in prog.get('funs', [])):
        return 'function'
    for c in prog.get('classes', []):
        if any(a['n'] == name for a in c.get('args', [])):
            return 'class-argument'
        for m in c.get('members', []):
            if m['k'] == 'field' and m['n'] == name:
                return 'body-field'
            if m['k'] == 'method' and m['name'] == name:
                return 'method'
            if m['k'] == 'method' and any(p['n'] == name for p in m['params']):
                return 'method-parameter'
    for f in prog.get('funs', []):
        if any(p['n'] == name for p in f['params']):
            return 'parameter'
    return {'v': 'variable', 'i': 'loop-variable', 'k': 'while-counter', 'b': 'match-binder', 'h': 'handle-bound', 'e': 'handle-variable', 'w': 'loop-variable'}.get(name[0], 'variable')


def user_names(prog):
    """Every user-chosen identifier of a program (definitions), in a stable order."""
    names = []

    def add(n):
        if n and n not in NEVER and n not in names and not n.startswith('__') and n not in lang.BINSPELL:
            names.append(n)
    for c in prog.get('classes', []):
        add(c['name'])
        for a in c.get('args', []):
            add(a['n'])
        for m in c.get('members', []):
            if m['k'] == 'field':
                add(m['n'])
            else:
                if not m.get('op'):
                    add(m['name'])
                for p in m['params']:
                    add(p['n'])
    for f in prog.get('funs', []):
        add(f['name'])
        for p in f['params']:
            add(p['n'])
    for b in gen.walk_blocks(prog):
        for st in b:
            k = st['k']
            if k == 'def': add(st['n'])
            elif k == 'deftup':
                def flat(ns):
                    for n in ns:
                        if isinstance(n, list): flat(n)
                        else: add(n)
                flat(st['ns'])
            elif k in ('for', 'forin'): add(st['v'])
            elif k == 'match':
                for pat, _ in st['arms']:
                    if pat[0] == 'bind': add(pat[1])
            elif k == 'handle':
                if st.get('bind'): add(st['bind'])
                for cls, var, _ in st['arms']: add(var)
    return names


class Rename(ast.NodeTransformer):
    def __init__(self, ren):
        self.ren = ren

    def r(self, n):
        return self.ren.get(n, n)

    def visit_Name(self, n):
        n.id = self.r(n.id); return n

    def visit_arg(self, n):
        n.arg = self.r(n.arg)
        if n.annotation: n.annotation = self.visit(n.annotation)
        return n

    def visit_FunctionDef(self, n):
        n.name = self.r(n.name); self.generic_visit(n); return n

    def visit_ClassDef(self, n):
        n.name = self.r(n.name); self.generic_visit(n); return n

    def visit_Attribute(self, n):
        n.attr = self.r(n.attr); self.generic_visit(n); return n

    def visit_keyword(self, n):
        if n.arg: n.arg = self.r(n.arg)
        self.generic_visit(n); return n

    def visit_ExceptHandler(self, n):
        if n.name: n.name = self.r(n.name)
        self.generic_visit(n); return n

    def visit_MatchAs(self, n):
        if n.name: n.name = self.r(n.name)
        self.generic_visit(n); return n

    def visit_Call(self, n):
        self.generic_visit(n)
        # NewType("T", ...) : the string is the type's name
        if isinstance(n.func, ast.Name) and n.func.id == 'NewType' and n.args and isinstance(n.args[0], ast.Constant) and isinstance(n.args[0].value, str):
            n.args[0] = ast.Constant(value=self.r(n.args[0].value))
        return n


def renamed_dump(py, ren):
    return ast.dump(Rename(ren).visit(ast.parse(py)))


def judge(w, prog, ren, part, origin, base_cache, label):
    """label: (slot kind, pool name or 'ordinary'/'full')"""
    src = lang.to_mamba(prog)
    if src not in base_cache:
        b1 = w.pipe(src, annotate=True); b2 = w.pipe(src, annotate=True)
        if b1.get('k') != b2.get('k') or b1.get('py') != b2.get('py'):
            base_cache[src] = None
        else:
            base_cache[src] = b1
    base = base_cache[src]
    if base is None:
        part.inconc('nondeterministic-baseline'); return
    kb = base.get('k')
    if kb not in ('ok', 'err'):
        part.inconc('pipeline-' + str(kb)); return
    rsrc = lang.to_mamba(prog, ren)
    res = w.pipe(rsrc, annotate=True)
    kr = res.get('k')
    if kr not in ('ok', 'err'):
        part.inconc('pipeline-' + str(kr)); return
    part.count('renamings'); part.count('slot:' + label[0])
    wit = {'kind': 'rename', 'origin': origin, 'renaming': ren, 'slot': label[0], 'to': label[1], 'base': src, 'renamed': rsrc, 'prog': prog}
    # adversarial names: the name is the culprit (one entry per name, whatever the slot); ordinary names: the slot kind
    tag = label[1] if label[1] in POOL else f'{label[0]}:{label[1]}'
    if kr != kb:
        part.violation(f'verdict-changes:{kb}->{kr}:{tag}', dict(wit, diagnostic=((res if kr == "err" else base).get('errs') or [''])[0][:400]))
        return
    if kb == 'err':
        part.held(('err', label[0])); return
    try:
        want = renamed_dump(base['py'][0], ren)
        got = ast.dump(ast.parse(res['py'][0]))
    except SyntaxError:
        part.violation(f'output-not-python:{tag}', dict(wit, python=res['py'][0][:2000])); return
    if want != got:
        part.violation(f'output-differs-from-renamed-output:{tag}', dict(wit, base_py=base['py'][0][:2500], renamed_py=res['py'][0][:2500]))
        return
    # behaviour (cheap extra): the renamed module must behave like the original one
    if 'lines' not in base:
        base['lines'] = behave.observe(base['py'][0])[:2]
    obs = behave.observe(res['py'][0])
    # an uncaught user exception carries the (renamed) name of its class
    want_beh = (base['lines'][0], ren.get(base['lines'][1], base['lines'][1]))
    if obs[2]['status'] == 'ok' and (obs[0], obs[1]) != want_beh:
        # one defect, whatever the name: a user name equal to a Python builtin that the emitted module itself uses (int / str / list ... in
        # annotations, isinstance, range, print) shadows it. The criterion is read off the ORIGINAL output, not off a list of names.
        import builtins
        used = {n.id for n in ast.walk(ast.parse(base['py'][0])) if isinstance(n, ast.Name) and hasattr(builtins, n.id)}
        btag = 'python-builtin-used-by-the-output' if (set(ren.values()) & used) else tag
        part.violation(f'behaviour-changes:{btag}', dict(wit, base_out=base['lines'], renamed_out=[obs[0][:8], obs[1], obs[2]['detail']], builtins_used_by_output=sorted(used)))
        return
    part.held((label[0], label[1] if label[1] in POOL else 'ordinary'))
    if part.evaluations % 150 == 1:
        part.sample({'origin': origin, 'renaming': ren, 'renamed_head': rsrc[:240]})


def template():
    """One program with every slot kind (and the constructs that special-case names: sqrt/math, Optional, `?` on a field)."""
    box = {'name': 'Box', 'args': [{'n': 'item', 't': 'Int?', 'field': True, 'mut': True}, {'n': 'weight', 't': 'Int', 'field': True, 'mut': True}], 'parents': [],
           'members': [{'k': 'field', 'n': 'count', 't': 'Int', 'mut': True, 'e': L(0)},
                       {'k': 'method', 'name': 'grow', 'self': 'self', 'params': [{'n': 'by', 't': 'Int', 'd': L(1)}], 'ret': 'Int', 'raises': [],
                        'body': [{'k': 'fasg', 'o': V('self', 'Box'), 'f': 'count', 'e': B('+', {'k': 'fld', 'o': V('self', 'Box'), 'f': 'count', 't': 'Int'}, V('by'))},
                                 VAL({'k': 'fld', 'o': V('self', 'Box'), 'f': 'count', 't': 'Int'})]},
                       {'k': 'field', 'n': 'tag', 't': 'Str', 'mut': False, 'e': L('t')},
                       {'k': 'method', 'name': 'heavy', 'self': 'fin', 'params': [], 'ret': 'Bool', 'raises': [],
                        'body': [VAL(B('>', {'k': 'fld', 'o': V('self', 'Box'), 'f': 'weight', 't': 'Int'}, L(3), 'Bool'))]}]}
    oops = EXC('Oops')
    bump = FUN('bump', [('amount', 'Int', None), ('extra', 'Int', L(2))], 'Int', [VAL(B('+', V('amount'), V('extra')))])
    risky = FUN('risky', [('level', 'Int', None)], 'Int', [IF(B('>', V('level'), L(2), 'Bool'), [RAISE('Oops', 'hi')]), VAL(B('*', V('level'), L(2)))], raises=['Oops'])
    main = [D('seed', L(5)), D('crate', {'k': 'new', 'c': 'Box', 'args': [{'k': 'none', 't': 'None'}, L(4)], 't': 'Box'}, 'Box'),
            D('got', {'k': 'qd', 'e': {'k': 'fld', 'o': V('crate', 'Box'), 'f': 'item', 't': 'Int?'}, 'd': CALL('bump', V('seed')), 't': 'Int'}, 'Int', ann=True), P(V('got')),
            D('maybe', {'k': 'none', 't': 'None'}, 'Int?', ann=True), D('sure', {'k': 'qd', 'e': V('maybe', 'Int?'), 'd': B('+', V('seed'), L(1)), 't': 'Int'}, 'Int', ann=True), P(V('sure')),
            D('root', {'k': 'sqrt', 'e': L(16), 't': 'Float'}, 'Float'), P(V('root', 'Float')),
            P({'k': 'mcall', 'o': V('crate', 'Box'), 'm': 'grow', 'args': [], 't': 'Int'}), P({'k': 'mcall', 'o': V('crate', 'Box'), 'm': 'grow', 'args': [V('seed')], 't': 'Int'}),
            P({'k': 'mcall', 'o': V('crate', 'Box'), 'm': 'heavy', 'args': [], 't': 'Bool'}), P({'k': 'fld', 'o': V('crate', 'Box'), 'f': 'tag', 't': 'Str'}),
            {'k': 'deftup', 'ns': ['lo', 'hi'], 'ts': ['Int', 'Int'], 'mut': True, 'e': {'k': 'tup', 'es': [L(1), L(3)], 't': '(Int, Int)'}},
            FOR('step', V('lo'), V('hi'), [P(B('*', V('step'), V('seed')))], True),
            MATCH(V('hi'), [(('lit', 'Int', 1), [P(L('one'))]), (('bind', 'rest'), [P(B('+', V('rest'), V('seed')))])]),
            HANDLE(CALL('risky', V('hi')), [('Oops', 'problem', [P(L('caught'))])]),
            HANDLE(CALL('risky', L(1)), [('Oops', 'problem', [VAL(B('-', L(0), L(1)))])], bind='outcome'), P(V('outcome')),
            P(FS('seed=', V('seed'), ' hi=', V('hi')))]
    # an interface below a CONCRETE user class, implemented by a class (the generator adds ABC / abstractmethod for the interface)
    ground = {'name': 'Ground', 'args': [], 'parents': [], 'members': [{'k': 'field', 'n': 'level', 't': 'Int', 'mut': True, 'e': L(1)}]}
    shape = {'name': 'Shape', 'abstract': True, 'args': [], 'parents': [{'name': 'Ground'}],
             'members': [{'k': 'method', 'abstract': True, 'name': 'area', 'self': 'self', 'params': [], 'ret': 'Int', 'raises': []}]}
    square = {'name': 'Square', 'args': [], 'parents': [{'name': 'Shape'}],
              'members': [{'k': 'field', 'n': 'side', 't': 'Int', 'mut': True, 'e': L(2)},
                          {'k': 'method', 'name': 'area', 'self': 'self', 'params': [], 'ret': 'Int', 'raises': [],
                           'body': [VAL(B('*', {'k': 'fld', 'o': V('self', 'Square'), 'f': 'side', 't': 'Int'}, {'k': 'fld', 'o': V('self', 'Square'), 'f': 'side', 't': 'Int'}))]}]}
    plain = {'name': 'Named', 'abstract': True, 'args': [], 'parents': [],
             'members': [{'k': 'method', 'abstract': True, 'name': 'label', 'self': 'self', 'params': [], 'ret': 'Str', 'raises': []}]}
    main += [D('tile', {'k': 'new', 'c': 'Square', 'args': [], 't': 'Square'}, 'Square'), P({'k': 'mcall', 'o': V('tile', 'Square'), 'm': 'area', 'args': [], 't': 'Int'}),
             P({'k': 'fld', 'o': V('tile', 'Square'), 'f': 'level', 't': 'Int'})]
    return {'classes': [oops, box, ground, shape, square, plain], 'funs': [bump, risky], 'main': main}


def shard(i, n, nprog, per_prog, half):
    w = Worker(watchdog=60); part = Partial()
    k = 0
    # systematic matrix: every slot of the template x every pool name
    tp = template()
    cache = {}
    names = user_names(tp)
    for nm in names:
        for pi, pool_name in enumerate(POOL + ORDINARY[:3]):
            k += 1
            if k % n != i or pool_name in names:
                continue
            if half and pool_name not in ('Optional', 'math', 'Union', 'size', '__x', 'value', 'init', 'super', 'ABC', 'abstractmethod') and pi % 2 != common.SEED % 2:
                continue
            judge(w, tp, {nm: pool_name}, part, 'template', cache, (slot_kind(nm, tp), pool_name if pool_name in POOL else 'ordinary'))
            part.count('matrix-cells')
    progs = []
    cells = sweeps.cells()
    for kk, (cell, prog) in enumerate(cells):
        if kk % 11 == (common.SEED % 11) and (prog.get('classes') or prog.get('funs')):
            progs.append(('sweep:' + cell, prog, kk))
    for j in range(nprog):
        progs.append((f'generated:{j}', None, j))
    for origin, prog, j in progs:
        k += 1
        if k % n != i:
            continue
        r = rng(PROP, origin.split(':')[0], j)
        if prog is None:
            prog, _ = gen.generate(r, {'size': 1})
            if j % 3 == 1:
                prog['layout'] = j
        names = user_names(prog)
        if not names:
            continue
        cache = {}
        for _ in range(per_prog):
            nm = r.choice(names)
            pool_name = r.choice(POOL)
            if pool_name in names:
                continue
            judge(w, prog, {nm: pool_name}, part, origin, cache, (slot_kind(nm, prog), pool_name))
        # full renamings into ordinary names (and one mixing in adversarial ones)
        for mix in (False, True):
            pool = ORDINARY + [f'{a}_{b}' for a in ORDINARY[:8] for b in ORDINARY[8:14]] + ([f'{a}{d}' for a in ORDINARY[14:30] for d in (1, 2)] if mix else [])
            pool = [p_ for p_ in pool if p_ not in names]
            if len(pool) < len(names):
                continue
            chosen = r.sample(pool, len(names))
            judge(w, prog, dict(zip(names, chosen)), part, origin, cache, ('full', 'ordinary'))
        part.count('programs')
    w.close()
    return part.dump()


def replay_entries(rep):
    rep.known_live = {}
    w = Worker(watchdog=60)
    tp = template()
    for sig, (wit, _) in rep.known.known.items():
        obj = json.load(open(os.path.join(common.ROOT, wit)))
        part = Partial()
        prog = tp if obj.get('template') else obj['prog']
        for ren in obj['renamings']:
            nm = list(ren)[0]
            judge(w, prog, ren, part, 'finding', {}, (slot_kind(nm, prog), ren[nm]))
        rep.known_live[sig] = sig in part.violations
        for s, (wt, c) in part.violations.items():
            rep.violation(s, wt)
    w.close()


def selftest():
    py = 'class A:\n    def m(self, p):\n        return self.f + p\ndef g(x=1):\n    return A().m(x)\n'
    assert renamed_dump(py, {'A': 'B', 'm': 'n', 'p': 'q', 'f': 'h', 'g': 'k', 'x': 'y'}) == ast.dump(ast.parse('class B:\n    def n(self, q):\n        return self.h + q\ndef k(y=1):\n    return B().n(y)\n'))
    assert renamed_dump(py, {'m': 'n'}) != ast.dump(ast.parse(py))


def main(tier):
    common.build()
    selftest()
    rep = Report(PROP, tier, 'exploration')
    rep.rule = ('one evaluation = one (program, renaming): the renamed source through the real pipeline; verdict equal to that of the original; ast(out(rho P)) == rho(ast(out(P))); executed '
                'behaviour equal; workload: the template program (every slot kind: variable, parameter, function, class, exception class, class argument, body field, method, method '
                f'parameter, loop variable, match binder, handle variable, tuple components) x the whole {len(POOL)}-name adversarial pool one name at a time, and sweep / generated '
                'programs with sampled single renamings plus full renamings; distinct = distinct (slot kind, pool name)')
    rep.assumptions = ['never renamed from or to: self, __init__, operator names, names defined in the default context (Int, Str, Exception, print, ...) and Mamba / Python keywords',
                       'a pool name is fresh only if the program does not use it already']
    replay_entries(rep)
    nprog, per, half = (30, 4, True) if tier == 'quick' else (600, 6, False)
    for d in run_shards(shard, (nprog, per, half)):
        rep.merge(d)
    slots = [k for k in rep.cov if k.startswith('slot:')]
    floors = [('>= 700 renamings', rep.cov.get('renamings', 0) >= 700), ('>= 10 slot kinds', len(slots) >= 10), ('template matrix (>= 600 cells)', rep.cov.get('matrix-cells', 0) >= 600)]
    return rep.finish(floors)


def replay(path):
    common.build()
    obj = json.load(open(path))['witness']
    w = Worker(watchdog=60); part = Partial()
    judge(w, obj['prog'], obj['renaming'], part, 'replay', {}, (obj['slot'], obj['to']))
    w.close()
    if part.violations:
        print(f'VIOLATION property={PROP} replay={path}')
        return 1
    print('replay: held')
    return 0
