"""The executable core language as a small AST (dict nodes), its pretty-printer to Mamba text and a
reference interpreter. This is the *specification side* of the history-vs-model monitors: it says what a
program of the fragment means (printed lines, class of the uncaught exception); the deciding step is the
comparison with what CPython does on the text that the real mamba pipeline emitted.

Types are strings: Int Float Str Bool, class names, `T?`, `(A, B)`, `List[T]`.
Expression nodes: lit var bin not neg sqrt fstr call mcall new fld ife qd none tup lst idx
Statement nodes:  def deftup asg aug fasg print if for forin while match expr raise handle ret val pass
"""
import math, zlib

INT, FLOAT, STR, BOOL = 'Int', 'Float', 'Str', 'Bool'
PRIMS = (INT, FLOAT, STR, BOOL)


# ---------------------------------------------------------------------------------------------- types
def is_nullable(t):
    return t.endswith('?')


def strip_null(t):
    return t[:-1] if t.endswith('?') else t


class Hier:
    """Class table of a program: parents and exception-ness (for subtyping and handle semantics)."""

    def __init__(self, classes=()):
        self.parents = {'Exception': []}
        for c in classes:
            self.parents[c['name']] = [p['name'] for p in c.get('parents', [])]

    def ancestors(self, c):
        out = [c]
        for p in self.parents.get(c, []):
            for a in self.ancestors(p):
                if a not in out:
                    out.append(a)
        return out

    def is_sub(self, a, b):
        """a usable where b is expected."""
        if b == 'Any' and not is_nullable(a):
            return True
        if a == b:
            return True
        if a == 'None':
            return is_nullable(b)
        if is_nullable(a) and not is_nullable(b):
            return False
        a0, b0 = strip_null(a), strip_null(b)
        if a0 == b0:
            return True
        if (a0, b0) in ((INT, FLOAT), (INT, 'Complex'), (FLOAT, 'Complex')):
            return True
        if a0 in self.parents and b0 in self.ancestors(a0):
            return True
        return False


# ---------------------------------------------------------------------------------------------- printer
BINSPELL = {'+': '+', '-': '-', '*': '*', '/': '/', '//': '//', 'mod': 'mod', '^': '^', '<': '<', '<=': '<=', '>': '>',
            '>=': '>=', '=': '=', '!=': '!=', 'and': 'and', 'or': 'or', 'is': 'is', 'in': 'in'}


def esc(s):
    return s


class Printer:
    """Mamba text of a program. `ren` maps user identifiers to other spellings (C15);
    `parens` = 'full' parenthesises every binary operation (grouping explicit)."""

    def __init__(self, ren=None, layout=None):
        # layout: None = every block on lines of its own; 'all' = every single-statement block attached to its
        # header (`def f() -> Int => for i in 0 .. n do`, `_ => print(x)`, `if c then return x`); an int = a
        # deterministic choice per site
        self.layout = layout
        self.site = 0
        self.noif = False
        self.ren = ren or {}

    def n(self, name):
        return self.ren.get(name, name)

    def ty(self, t):
        if t.endswith('?'):
            return self.ty(t[:-1]) + '?'
        if t.startswith('('):
            inner = split_top(t[1:-1])
            return '(' + ', '.join(self.ty(x) for x in inner) + ')'
        if '[' in t:
            head, rest = t.split('[', 1)
            return head + '[' + ', '.join(self.ty(x) for x in split_top(rest[:-1])) + ']'
        return self.n(t)

    def e(self, x, top=False):
        k = x['k']
        if k == 'lit':
            v, t = x['v'], x['t']
            if t == STR: return '"' + v + '"'
            if t == BOOL: return 'True' if v else 'False'
            if t == FLOAT: return repr(v)
            return str(v)
        if k == 'none': return 'None'
        if k == 'var': return self.n(x['n'])
        if k == 'bin':
            s = f"{self.e(x['l'])} {BINSPELL[x['op']]} {self.e(x['r'])}"
            return s if top else '(' + s + ')'
        if k == 'not':
            s = 'not ' + self.e(x['e'])
            return s if top else '(' + s + ')'
        if k == 'neg':
            s = '-' + self.e(x['e'])
            return s if top else '(' + s + ')'
        if k == 'sqrt':
            return 'sqrt ' + self.e(x['e'])        # `(sqrt x)` does not parse; only used at top of an initialiser
        if k == 'fstr':
            return '"' + ''.join(p if isinstance(p, str) else '{' + self.e(p, True) + '}' for p in x['parts']) + '"'
        if k == 'call':
            return f"{self.n(x['f'])}({', '.join(self.e(a, True) for a in x['args'])})"
        if k == 'mcall':
            return f"{self.e(x['o'])}.{self.n(x['m'])}({', '.join(self.e(a, True) for a in x['args'])})"
        if k == 'new':
            return f"{self.n(x['c'])}({', '.join(self.e(a, True) for a in x['args'])})"
        if k == 'fld':
            return f"{self.e(x['o'])}.{self.n(x['f'])}"
        if k == 'ife':
            return f"if {self.e(x['c'], True)} then {self.e(x['a'])} else {self.e(x['b'])}"
        if k == 'qd':
            s = f"{self.e(x['e'])} ? {self.e(x['d'])}"
            return s if top else '(' + s + ')'
        if k == 'tup':
            return '(' + ', '.join(self.e(a, True) for a in x['es']) + ')'
        if k == 'lst':
            return '[' + ', '.join(self.e(a, True) for a in x['es']) + ']'
        if k == 'idx':
            return f"{self.e(x['o'])}[{self.e(x['i'], True)}]"
        raise Exception('printer: unknown expression ' + k)

    def rng(self, r):
        s = f"{self.e(r['a'])} {'..=' if r['incl'] else '..'} {self.e(r['b'])}"
        if r.get('step') is not None:
            s += f" .. {self.e(r['step'], r['step']['k'] == 'neg')}"
        return s

    INLINE_OK = ('print', 'expr', 'val', 'asg', 'aug', 'fasg', 'ret', 'raise', 'pass', 'for', 'forin', 'while', 'if', 'match')

    def attach(self, head, body, ind, no_if=False):
        """Lines of `head` followed by the block `body`; `ind` = indentation level of the header line.
        no_if: the header is an if-branch that is followed by its `else`; nothing on that line may be a
        conditional (it would capture the else). An if that has an else is never attached."""
        noif = no_if or self.noif
        st = body[0] if len(body) == 1 else None
        if self.layout is not None and st is not None and st['k'] in self.INLINE_OK and not (noif and st['k'] in ('if', 'match')) \
                and not (st['k'] == 'if' and st.get('el') is not None):
            self.site += 1
            if self.layout == 'all' or zlib.crc32(f'{self.layout}:{self.site}'.encode()) & 1:
                prev, self.noif = self.noif, noif
                lines = self.block(body, ind)
                self.noif = prev
                return [head + ' ' + lines[0].lstrip(' ')] + lines[1:]
        prev, self.noif = self.noif, False
        lines = self.block(body, ind + 1)
        self.noif = prev
        return [head] + lines

    def block(self, b, ind):
        out = []
        I = '    ' * ind
        for st in b:
            k = st['k']
            if k == 'def':
                fin = '' if st['mut'] else 'fin '
                ann = f": {self.ty(st['t'])}" if st['ann'] else ''
                if st.get('e') is None:
                    out.append(f"{I}def {fin}{self.n(st['n'])}{ann}")
                elif st['e']['k'] in ('matchx',):
                    out.append(f"{I}def {fin}{self.n(st['n'])}{ann} := match {self.e(st['e']['e'], True)}")
                    for pat, val in st['e']['arms']:
                        out.append(f"{I}    {self.pat(pat)} => {self.e(val, True)}")
                else:
                    out.append(f"{I}def {fin}{self.n(st['n'])}{ann} := {self.e(st['e'], True)}")
            elif k == 'deftup':
                fin = '' if st['mut'] else 'fin '
                def pat(ns):
                    return '(' + ', '.join(pat(n) if isinstance(n, list) else self.n(n) for n in ns) + ')'
                ann = f": {self.ty(st['annt'])}" if st.get('annt') else ''
                out.append(f"{I}def {fin}{pat(st['ns'])}{ann} := {self.e(st['e'], True)}")
            elif k == 'asg':
                out.append(f"{I}{self.n(st['n'])} := {self.e(st['e'], True)}")
            elif k == 'aug':
                out.append(f"{I}{self.n(st['n'])} {st['op']} {self.e(st['e'], True)}")
            elif k == 'fasg':
                out.append(f"{I}{self.e(st['o'])}.{self.n(st['f'])} := {self.e(st['e'], True)}")
            elif k == 'print':
                out.append(f"{I}print({self.e(st['e'], True)})")
            elif k == 'expr':
                out.append(f"{I}{self.e(st['e'], True)}")
            elif k == 'val':
                out.append(f"{I}{self.e(st['e'], True)}")
            elif k == 'ret':
                out.append(f"{I}return {self.e(st['e'], True)}" if st.get('e') is not None else f"{I}return")
            elif k == 'pass':
                out.append(f"{I}pass")
            elif k == 'raise':
                out.append(f"{I}raise {self.n(st['c'])}(\"{st['msg']}\")")
            elif k == 'if':
                # a conditional attached to `then` would capture the else of this one
                out += self.attach(f"{I}if {self.e(st['c'], True)} then", st['th'], ind, no_if=True)
                if st.get('el') is not None:
                    out += self.attach(f"{I}else", st['el'], ind, no_if=True)
            elif k == 'for':
                out += self.attach(f"{I}for {self.n(st['v'])} in {self.rng(st['r'])} do", st['body'], ind)
            elif k == 'forin':
                out += self.attach(f"{I}for {self.n(st['v'])} in {self.e(st['coll'])} do", st['body'], ind)
            elif k == 'while':
                out += self.attach(f"{I}while {self.e(st['c'], True)} do", st['body'], ind)
            elif k == 'match':
                out.append(f"{I}match {self.e(st['e'], True)}")
                for pat, body in st['arms']:
                    out += self.attach(f"{I}    {self.pat(pat)} =>", body, ind + 1)
            elif k == 'handle':
                head = self.e(st['e'], True)
                if st.get('bind'):
                    fin = '' if st.get('mut', True) else 'fin '
                    ann = f": {self.ty(st['t'])}" if st.get('ann') else ''
                    head = f"def {fin}{self.n(st['bind'])}{ann} := {head}"
                out.append(f"{I}{head} handle")
                for cls, var, body in st['arms']:
                    out += self.attach(f"{I}    {self.n(var)}: {self.n(cls)} =>", body, ind + 1)
            else:
                raise Exception('printer: unknown statement ' + k)
        return out

    def pat(self, pat):
        if pat[0] == 'lit':
            return self.e({'k': 'lit', 't': pat[1], 'v': pat[2]})
        if pat[0] == 'bind':
            return self.n(pat[1])
        return '_'

    def params(self, ps, self_kind=None):
        out = []
        if self_kind:
            out.append('fin self' if self_kind == 'fin' else 'self')
        for p in ps:
            s = f"{self.n(p['n'])}: {self.ty(p['t'])}"
            if p.get('d') is not None:
                s += f" := {self.e(p['d'], True)}"
            out.append(s)
        return ', '.join(out)

    def fun(self, f, ind, self_kind=None):
        I = '    ' * ind
        ret = f" -> {self.ty(f['ret'])}" if f.get('ret') else ''
        rs = f" raise [{', '.join(self.n(c) for c in f['raises'])}]" if f.get('raises') else ''
        name = f['name'] if f.get('op') else self.n(f['name'])
        head = f"{I}def {name}({self.params(f['params'], self_kind)}){ret}{rs} =>"
        body = f['body']
        if len(body) == 1 and body[0]['k'] in ('val', 'print', 'expr', 'fasg', 'asg', 'raise') and f.get('inline'):
            return [head + ' ' + self.block(body, 0)[0]]
        return self.attach(head, body, ind)

    def cls(self, c):
        out = []
        args = ''
        if c.get('args'):
            args = '(' + ', '.join(('def ' if a.get('field') else '') + ('' if a.get('mut', True) or not a.get('field') else 'fin ')
                                   + f"{self.n(a['n'])}: {self.ty(a['t'])}" for a in c['args']) + ')'
        par = ''
        if c.get('parents'):
            ps = []
            for p in c['parents']:
                if p.get('args'):
                    ps.append(f"{self.n(p['name'])}({', '.join(self.e(a, True) for a in p['args'])})")
                else:
                    ps.append(self.n(p['name']))
            par = ': ' + ', '.join(ps)
        kw = 'type' if c.get('abstract') else 'class'
        out.append(f"{kw} {self.n(c['name'])}{args}{par}")
        for m in c.get('members', []):
            if m['k'] == 'field':
                fin = '' if m['mut'] else 'fin '
                init = f" := {self.e(m['e'], True)}" if m.get('e') is not None else ''
                out.append(f"    def {fin}{self.n(m['n'])}: {self.ty(m['t'])}{init}")
            elif m['k'] == 'method':
                if m.get('abstract'):
                    ret = f" -> {self.ty(m['ret'])}" if m.get('ret') else ''
                    out.append(f"    def {self.n(m['name'])}({self.params(m['params'], m.get('self', 'self'))}){ret}")
                else:
                    out += self.fun(m, 1, m.get('self', 'self'))
        return out

    def program(self, p):
        out = []
        for imp in p.get('imports', []):
            out.append(imp)
        for c in p.get('classes', []):
            out += self.cls(c)
            out.append('')
        for f in p.get('funs', []):
            out += self.fun(f, 0)
            out.append('')
        out += self.block(p.get('main', []), 0)
        return '\n'.join(out) + '\n'


def split_top(s):
    out, depth, cur = [], 0, ''
    for ch in s:
        if ch in '([':
            depth += 1
        if ch in ')]':
            depth -= 1
        if ch == ',' and depth == 0:
            out.append(cur.strip()); cur = ''
        else:
            cur += ch
    if cur.strip():
        out.append(cur.strip())
    return out


def to_mamba(p, ren=None, layout=None):
    return Printer(ren, layout if layout is not None else p.get('layout')).program(p)


# ---------------------------------------------------------------------------------------------- interpreter
class MRaise(Exception):
    def __init__(self, cls, chain, msg=''):
        self.cls, self.chain, self.msg = cls, chain, msg


class MReturn(Exception):
    def __init__(self, v):
        self.v = v


class Unsupported(Exception):
    """The model declines (construct or value outside its fragment): no verdict is compared."""


class Obj:
    __slots__ = ('cls', 'f')

    def __init__(self, cls):
        self.cls = cls
        self.f = {}


def fmt(v):
    if v is None: return 'None'
    if isinstance(v, bool): return 'True' if v else 'False'
    if isinstance(v, float): return repr(v)
    if isinstance(v, tuple): return '(' + ', '.join(fmtr(x) for x in v) + (',' if len(v) == 1 else '') + ')'
    if isinstance(v, list): return '[' + ', '.join(fmtr(x) for x in v) + ']'
    if isinstance(v, Obj): raise Unsupported('printing an object')
    return str(v)


def fmtr(v):
    if isinstance(v, str): return repr(v)
    return fmt(v)


BUILTIN_EXC = {'ZeroDivisionError': ['ZeroDivisionError', 'ArithmeticError', 'Exception'],
               'ValueError': ['ValueError', 'Exception'], 'IndexError': ['IndexError', 'LookupError', 'Exception'],
               'OverflowError': ['OverflowError', 'ArithmeticError', 'Exception'],
               'RecursionError': ['RecursionError', 'RuntimeError', 'Exception']}


class Interp:
    """Reference semantics. Result: (printed lines, exception class name or None)."""

    def __init__(self, prog, max_steps=200000):
        self.p = prog
        self.classes = {c['name']: c for c in prog.get('classes', [])}
        self.funs = {f['name']: f for f in prog.get('funs', [])}
        self.hier = Hier(prog.get('classes', []))
        self.out = []
        self.steps = 0
        self.max_steps = max_steps
        self.depth = 0
        self.cls_attrs = {}

    # ---- helpers
    def tick(self):
        self.steps += 1
        if self.steps > self.max_steps:
            raise Unsupported('step limit')

    def raise_builtin(self, name):
        raise MRaise(name, BUILTIN_EXC[name])

    def chain(self, cls):
        return self.hier.ancestors(cls)

    def lookup_method(self, cls, m):
        for c in self.hier.ancestors(cls):
            cd = self.classes.get(c)
            if cd:
                for mem in cd.get('members', []):
                    if mem['k'] == 'method' and mem['name'] == m and not mem.get('abstract'):
                        return mem
        raise Unsupported(f'no method {m} on {cls}')

    def class_attr(self, cls, f):
        for c in self.hier.ancestors(cls):
            if (c, f) in self.cls_attrs:
                return self.cls_attrs[(c, f)]
        raise MRaise('AttributeError', ['AttributeError', 'Exception'])

    def init_class_attrs(self):
        for c in self.p.get('classes', []):
            for mem in c.get('members', []):
                if mem['k'] == 'field' and mem.get('e') is not None:
                    self.cls_attrs[(c['name'], mem['n'])] = self.ev(mem['e'], {})

    def construct(self, cls, args):
        o = Obj(cls)
        self.run_init(o, cls, args)
        return o

    def run_init(self, o, cls, args):
        cd = self.classes.get(cls)
        if cd is None:
            if cls == 'Exception':
                o.f['@args'] = args
                return
            raise Unsupported('construct ' + cls)
        init = next((m for m in cd.get('members', []) if m['k'] == 'method' and m['name'] == '__init__'), None)
        if init is not None:
            env = {'self': o}
            self.bind_params(init['params'], args, env)
            # parent inits first (no arguments supported with an explicit constructor in this fragment)
            for p in cd.get('parents', []):
                self.run_init(o, p['name'], [self.ev(a, env) for a in p.get('args', [])])
            self.exec_block(init['body'], env)
            return
        cargs = cd.get('args', [])
        if len(args) != len(cargs):
            raise Unsupported('constructor arity')
        env = {a['n']: v for a, v in zip(cargs, args)}
        passed = set()
        for p in cd.get('parents', []):
            pargs = [self.ev(a, env) for a in p.get('args', [])]
            for a in p.get('args', []):
                if a['k'] == 'var':
                    passed.add(a['n'])
            self.run_init(o, p['name'], pargs)
        for a in cargs:
            if a['n'] not in passed:
                o.f[a['n']] = env[a['n']]

    def bind_params(self, params, args, env):
        if len(args) > len(params):
            raise Unsupported('too many arguments')
        for i, p in enumerate(params):
            if i < len(args):
                env[p['n']] = args[i]
            elif p.get('d') is not None:
                env[p['n']] = self.ev(p['d'], {})
            else:
                raise Unsupported('missing argument')

    def call_fun(self, f, args, self_obj=None):
        env = {}
        if self_obj is not None:
            env['self'] = self_obj
        self.bind_params(f['params'], args, env)
        self.depth += 1
        if self.depth > 60:
            raise Unsupported('recursion depth')
        try:
            return self.exec_body(f['body'], env)
        finally:
            self.depth -= 1

    # ---- expressions
    def ev(self, x, env):
        self.tick()
        k = x['k']
        if k == 'lit': return x['v']
        if k == 'none': return None
        if k == 'var':
            if x['n'] not in env:
                if x['n'] in self.globals:
                    return self.globals[x['n']]
                raise MRaise('NameError', ['NameError', 'Exception'])
            return env[x['n']]
        if k == 'bin':
            op = x['op']
            if op == 'and':
                l = self.ev(x['l'], env)
                return self.ev(x['r'], env) if l else l
            if op == 'or':
                l = self.ev(x['l'], env)
                return l if l else self.ev(x['r'], env)
            a = self.ev(x['l'], env); b = self.ev(x['r'], env)
            if isinstance(a, Obj):
                m = {'+': '+', '-': '-', '*': '*', '=': '=', '<': '<', '>': '>'}.get(op)
                return self.call_fun(self.lookup_method(a.cls, m), [b], a)
            try:
                if op == '+': return a + b
                if op == '-': return a - b
                if op == '*': return a * b
                if op == '/': return a / b
                if op == '//': return a // b
                if op == 'mod': return a % b
                if op == '^':
                    r = a ** b
                    if isinstance(r, complex): raise Unsupported('complex power')
                    if isinstance(r, int) and abs(r) > 10 ** 60: raise Unsupported('huge int')
                    return r
                if op == '<': return a < b
                if op == '<=': return a <= b
                if op == '>': return a > b
                if op == '>=': return a >= b
                if op == '=': return a == b
                if op == '!=': return a != b
                if op == 'is': return a is b
                if op == 'in': return a in b
            except ZeroDivisionError:
                self.raise_builtin('ZeroDivisionError')
            except OverflowError:
                self.raise_builtin('OverflowError')
            raise Unsupported('operator ' + op)
        if k == 'not': return not self.ev(x['e'], env)
        if k == 'neg': return -self.ev(x['e'], env)
        if k == 'sqrt':
            v = self.ev(x['e'], env)
            try:
                return math.sqrt(v)
            except ValueError:
                self.raise_builtin('ValueError')
        if k == 'fstr':
            return ''.join(p if isinstance(p, str) else fmt_f(self.ev(p, env)) for p in x['parts'])
        if k == 'call':
            f = self.funs.get(x['f'])
            if f is None:
                raise Unsupported('call of unknown function ' + x['f'])
            return self.call_fun(f, [self.ev(a, env) for a in x['args']])
        if k == 'mcall':
            o = self.ev(x['o'], env)
            if o is None:
                raise MRaise('AttributeError', ['AttributeError', 'Exception'])
            if not isinstance(o, Obj):
                raise Unsupported('method call on non-object')
            return self.call_fun(self.lookup_method(o.cls, x['m']), [self.ev(a, env) for a in x['args']], o)
        if k == 'new':
            return self.construct(x['c'], [self.ev(a, env) for a in x['args']])
        if k == 'fld':
            o = self.ev(x['o'], env)
            if o is None:
                raise MRaise('AttributeError', ['AttributeError', 'Exception'])
            if x['f'] in o.f:
                return o.f[x['f']]
            return self.class_attr(o.cls, x['f'])
        if k == 'ife':
            return self.ev(x['a'], env) if self.ev(x['c'], env) else self.ev(x['b'], env)
        if k == 'qd':
            v = self.ev(x['e'], env)
            return v if v is not None else self.ev(x['d'], env)
        if k == 'tup': return tuple(self.ev(a, env) for a in x['es'])
        if k == 'lst': return [self.ev(a, env) for a in x['es']]
        if k == 'idx':
            o = self.ev(x['o'], env); i = self.ev(x['i'], env)
            try:
                return o[i]
            except IndexError:
                self.raise_builtin('IndexError')
        if k == 'matchx':
            v = self.ev(x['e'], env)
            for pat, val in x['arms']:
                if pat[0] == 'lit' and v == pat[2]: return self.ev(val, env)
                if pat[0] == 'bind':
                    env[pat[1]] = v
                    return self.ev(val, env)
                if pat[0] == 'wild': return self.ev(val, env)
            raise Unsupported('match expression without matching arm')
        raise Exception('interp: unknown expression ' + k)

    # ---- statements. exec_block returns the value of a trailing `val` (or None)
    def exec_block(self, b, env):
        last = None
        for st in b:
            last = self.exec(st, env)
        return last

    def exec_body(self, b, env):
        try:
            return self.exec_block(b, env)
        except MReturn as r:
            return r.v

    def exec(self, st, env):
        self.tick()
        k = st['k']
        if k == 'def':
            if st.get('e') is not None:
                env[st['n']] = self.ev(st['e'], env)
            return None
        if k == 'deftup':
            def bind(ns, v):
                if len(ns) != len(v):
                    raise MRaise('ValueError', ['ValueError', 'Exception'])
                for n, x in zip(ns, v):
                    if isinstance(n, list):
                        bind(n, x)
                    else:
                        env[n] = x
            bind(st['ns'], self.ev(st['e'], env))
            return None
        if k == 'asg':
            env[st['n']] = self.ev(st['e'], env); return None
        if k == 'aug':
            v = self.ev(st['e'], env); a = env[st['n']] if st['n'] in env else self.globals[st['n']]
            try:
                env[st['n']] = {'+=': lambda: a + v, '-=': lambda: a - v, '*=': lambda: a * v, '/=': lambda: a / v,
                                '^=': lambda: a ** v}[st['op']]()
            except ZeroDivisionError:
                self.raise_builtin('ZeroDivisionError')
            return None
        if k == 'fasg':
            o = self.ev(st['o'], env)
            if o is None:
                raise MRaise('AttributeError', ['AttributeError', 'Exception'])
            o.f[st['f']] = self.ev(st['e'], env); return None
        if k == 'print':
            self.out.append(fmt(self.ev(st['e'], env))); return None
        if k == 'expr':
            self.ev(st['e'], env); return None
        if k == 'val':
            return self.ev(st['e'], env)
        if k == 'ret':
            raise MReturn(self.ev(st['e'], env) if st.get('e') is not None else None)
        if k == 'pass':
            return None
        if k == 'raise':
            o = self.construct(st['c'], [st['msg']])
            raise MRaise(st['c'], self.chain(st['c']), st['msg'])
        if k == 'if':
            if self.ev(st['c'], env):
                return self.exec_block(st['th'], env)
            elif st.get('el') is not None:
                return self.exec_block(st['el'], env)
            return None
        if k == 'for':
            r = st['r']
            a = self.ev(r['a'], env); b = self.ev(r['b'], env)
            step = self.ev(r['step'], env) if r.get('step') is not None else 1
            if step == 0:
                self.raise_builtin('ValueError')
            # inclusive: the bound itself is included when reached (in the direction of the step)
            stop = (b + 1 if step > 0 else b - 1) if r['incl'] else b
            for i in range(a, stop, step):
                env[st['v']] = i
                self.exec_block(st['body'], env)
            return None
        if k == 'forin':
            for v in self.ev(st['coll'], env):
                env[st['v']] = v
                self.exec_block(st['body'], env)
            return None
        if k == 'while':
            while self.ev(st['c'], env):
                self.exec_block(st['body'], env)
            return None
        if k == 'match':
            v = self.ev(st['e'], env)
            for pat, body in st['arms']:
                if pat[0] == 'lit' and v == pat[2] and type(v) == type(pat[2]):
                    return self.exec_block(body, env)
                if pat[0] == 'bind':
                    env[pat[1]] = v
                    return self.exec_block(body, env)
                if pat[0] == 'wild':
                    return self.exec_block(body, env)
            return None
        if k == 'handle':
            try:
                v = self.ev(st['e'], env)
                if st.get('bind'):
                    env[st['bind']] = v
                return None
            except MRaise as r:
                for cls, var, body in st['arms']:
                    if cls in r.chain:
                        v = self.exec_block(body, env)
                        if st.get('bind'):
                            env[st['bind']] = v
                        return None
                raise
        raise Exception('interp: unknown statement ' + k)

    def run(self):
        self.globals = {}
        try:
            self.init_class_attrs()
            env = self.globals
            self.exec_block(self.p.get('main', []), env)
            return self.out, None
        except MRaise as r:
            return self.out, r.cls
        except MReturn:
            raise Unsupported('return at top level')
        except RecursionError:
            raise Unsupported('python recursion')


def fmt_f(v):
    """How a value appears inside an interpolated string."""
    if isinstance(v, Obj): raise Unsupported('object in f-string')
    return fmt(v)
