"""C19 — diagnostics are well-formed and point into the offending file and line.

Oracle: a parser for the renderer's own format applied to the strings `mamba_to_python` returns (boundary),
cross-checked with the structured positions obtained by running the same public stages in the worker.
Workload: fault enumeration - one lexical / syntactic / type / truncation fault per line of generated
programs, single- and multi-file - plus the rejected inputs of the hostile streams."""
import json, os, re
from . import common, lang, gen, sweeps, inputs, projects
from .common import Partial, Report, Worker, rng, run_shards

PROP = 'C19'
HEADER = re.compile(r'^ ──→ (.*?)(?::(\d+):(\d+))?$')
QUOTED = re.compile(r'^\s*(\d+) \| (.*)$')


def rust_lines(s):
    parts = s.split('\n')
    ended = s.endswith('\n')
    if parts and parts[-1] == '':
        parts = parts[:-1]
    out = []
    for i, p in enumerate(parts):
        last_unterminated = (i == len(parts) - 1) and not ended
        if p.endswith('\r') and not last_unterminated:
            p = p[:-1]
        out.append(p)
    return out


def check_diagnostics(errs, files, fault_file=None, fault_line=None, consequences_elsewhere=False):
    """files: {path: text}. Returns list of (clause violated, detail)."""
    bad = []
    if not errs:
        return [('rejection-without-diagnostic', '')]
    lines_on_fault = False
    other_files, fault_file_named = [], False
    for e in errs:
        rows = e.split('\n')
        hdr = None
        for r in rows:
            m = HEADER.match(r)
            if m:
                hdr = m; break
        if hdr is None:
            bad.append(('no-header', e[:120])); continue
        path = hdr.group(1)
        text = files.get(path)
        if text is None:
            # the renderer strips a trailing separator; try suffix match
            cands = [p for p in files if p.endswith(path) or path.endswith(p)]
            if cands:
                path = cands[0]; text = files[path]
        if text is None:
            bad.append(('names-no-given-file', hdr.group(1))); continue
        if fault_file is not None and path != fault_file:
            other_files.append(path)
        elif fault_file is not None:
            fault_file_named = True
        ls = rust_lines(text)
        if hdr.group(2):
            ln, col = int(hdr.group(2)), int(hdr.group(3))
            if ln < 1 or ln > max(len(ls), 1):
                bad.append(('position-line-outside-file', f'{ln} of {len(ls)}'))
            elif col < 1 or col > len(ls[ln - 1] if ls else '') + 1:
                bad.append(('position-column-outside-line', f'{ln}:{col} line length {len(ls[ln - 1])}'))
            if fault_line is not None and ln == fault_line:
                lines_on_fault = True
        for r in rows:
            q = QUOTED.match(r)
            if q and not HEADER.match(r):
                n, txt = int(q.group(1)), q.group(2)
                if n < 1 or n > len(ls):
                    bad.append(('quoted-line-number-outside-file', f'{n} of {len(ls)}'))
                elif ls[n - 1] != txt:
                    bad.append(('quoted-line-not-verbatim', f'{n}: {txt[:50]!r} vs {ls[n - 1][:50]!r}'))
                if fault_line is not None and n == fault_line:
                    lines_on_fault = True
    # a diagnostic in ANOTHER file: wrong, unless the fault breaks a declaration that the other file uses (then the use site may be
    # reported as well, as long as the faulty file is named too)
    if other_files and not (consequences_elsewhere and fault_file_named):
        bad.append(('names-other-file', f'{other_files[0]} instead of {fault_file}'))
    if fault_line is not None and not lines_on_fault and not bad:
        # the checker identifies structurally equal expressions: a diagnostic about the injected text may be placed at an equal
        # expression elsewhere (listed finding). That case gets a clause of its own so that it cannot hide other misplacements.
        clause = 'fault-line-not-mentioned'
        ftext = rust_lines(files.get(fault_file, ''))[fault_line - 1] if fault_file in files and fault_line <= len(rust_lines(files[fault_file])) else ''
        for e in errs:
            rows = e.split('\n')
            for a, b in zip(rows, rows[1:]):
                q = QUOTED.match(a)
                if q and set(b.strip()) == {'^'}:
                    col = len(b) - len(b.lstrip(' ')) - (len(a) - len(q.group(2)))
                    span = q.group(2)[col:col + len(b.strip())]
                    if len(span) >= 1 and span in ftext and int(q.group(1)) != fault_line:
                        clause = 'fault-reported-at-an-equal-expression-elsewhere'
        bad.append((clause, f'line {fault_line}'))
    return bad


# programs with multi-line strings / doc-strings ABOVE the code that receives the faults (line numbers must not drift after them)
TEXT_BASES = {
    'module-docstring': '"""\nModule documentation.\n"""\ndef a: Int := 1\ndef b: Int := a + 1\nprint(b)\n',
    'module-docstring-one-line-then-multi': '"""one line"""\n"""\ntwo\nlines\n\n"""\ndef a: Int := 1\ndef b: Int := a + 1\nprint(b)\n',
    'class-docstring': 'class K\n    """\n    doc of K\n    """\n    def v: Int := 1\n\ndef k := K()\ndef a: Int := k.v\nprint(a)\n',
    'function-docstring': 'def f(x: Int) -> Int =>\n    """\n    doc\n    """\n    x + 1\n\ndef a: Int := f(1)\nprint(a)\n',
    'multi-line-string-ending-in-newline': 'def s := "first\nsecond\n"\ndef t: Int := 3\ndef u: Int := t + 1\nprint(u)\nprint(s)\n',
    'multi-line-string': 'def s := "first\n   second"\ndef t: Int := 3\ndef u: Int := t + 1\nprint(u)\n',
    'multi-line-interpolated-string': 'def n := 2\ndef s := "a {n}\n  b {n + 1}\n"\ndef t: Int := 3\ndef u: Int := t + 1\nprint(u)\n',
    'empty-string-and-docstring': 'def e := ""\n"""\n"""\ndef t: Int := 3\ndef u: Int := t + 1\nprint(u)\n',
    'non-ascii-comment-on-last-line': 'def fq(a: Int) -> Int => a + 1\ndef s := "plain"\nprint(fq(1) + fq(2))  # éééé ü ∑ 😀 ééééééé\n',
    'non-ascii-string-on-last-line': 'def fq(a: Str) -> Str => a\ndef n := 2\nprint(fq("ééééééééééééééééé ü ∑ 😀" + fq("x")))\n',
    'non-ascii-above': 'def s := "ééééééééééééééééééééééééééééééééééééééééééééééééééééééééééééééééééééééé"\n# ∑∑∑∑∑∑∑∑∑∑∑∑∑∑∑∑∑∑∑∑∑∑∑∑∑∑∑∑∑∑∑∑∑∑∑∑∑∑∑∑∑∑∑∑∑∑∑∑∑∑∑∑∑∑∑∑∑∑∑∑∑∑∑∑∑∑∑∑∑∑∑∑\ndef t: Int := 3\ndef u: Int := t + 1\nprint(u)\n',
    'nested-interpolation': 'def fq(a: Str) -> Str => a\ndef nm := "n"\ndef other := "well then {fq(nm) + fq(nm) + fq("to {nm}")}"\ndef t: Int := 3\nprint(other)\nprint(t)\n',
    'crlf-docstring': '"""\r\ndoc\r\n"""\r\ndef a: Int := 1\r\ndef b: Int := a + 1\r\nprint(b)\r\n',
}
_LONG = 'def unrelated: Int := 10\n\ndef other: Int := unrelated + 1\n\nprint(other)\n\ndef scale(x: Int) -> Int => x * other\n\n'
SHORT_USER = {
    'type-alias': ([('a.mamba', _LONG + 'type Meters: Int when self >= 0\n\ndef double(m: Meters) -> Int => m + m\n'),
                    ('b.mamba', 'from a import Meters\n\ndef half(m: Meters) -> Int => m // 2\n')], 'a.mamba', 9, ': Int when', ': Intt when'),
    'class-parent': ([('a.mamba', _LONG + 'class Narrow(def w: Int)\nclass Wide(w: Int): Narrow(w)\n    def more(self) -> Int => 1\n'),
                      ('b.mamba', 'from a import Wide\n\ndef mk() -> Wide => Wide(1)\n')], 'a.mamba', 10, ': Narrow(w)', ': Narow(w)'),
    'class-parent-user-first': ([('a.mamba', 'from b import Wide\n\ndef mk() -> Wide => Wide(1)\n'),
                                 ('b.mamba', _LONG + 'class Narrow(def w: Int)\nclass Wide(w: Int): Narrow(w)\n    def more(self) -> Int => 1\n')], 'b.mamba', 10, ': Narrow(w)', ': Narow(w)'),
}


# ------------------------------------------------------------------------------------ fault injection
# ill-typed statements put on a line of their own: each is reported by another part of the checker
TYPE_FAULTS = {'type': 'def zq: Int := "bad"', 'type-undefined-name': 'print(zq_undefined)', 'type-none': 'def zq: Int := None', 'type-undefined-function': 'def zq: Int := zq_nofun(1)',
               'type-operand': 'def zq := 1 + "s"', 'type-undefined-method': 'def zq := "s".zq_nomethod()', 'type-reassign-undefined': 'zq_nowhere := 1',
               'type-undefined-in-nested-interpolation': 'print("padding padding padding {1 + 2} and more {"inner text {zq_undefined} tail"} end")',
               'type-undefined-in-deep-nested-interpolation': 'print("a {1 + 2 + 3 + 4 + 5 + 6 + 7 + 8 + 9 + 10 + 11 + 12 + 13 + 14 + 15 + 16 + 17 + "to {zq_undefined} x"}")',
               'type-undefined-in-interpolation-after-non-ascii': 'print("ééééééééééééééééééééééé {zq_undefined} é")'}

def code_lines(src):
    """0-based indices of lines that hold code and are not part of a string that spans lines (at their start or their end)."""
    open_at = set()
    state = None        # None, '"' or '"""'
    line = 0
    i = 0
    while i < len(src):
        c = src[i]
        if c == '\n':
            if state:
                open_at.add(line); open_at.add(line + 1)
            line += 1; i += 1; continue
        if state is None:
            if src.startswith('"""', i):
                state = '"""'; i += 3; continue
            if c == '"':
                state = '"'; i += 1; continue
            if c == '#':
                while i < len(src) and src[i] != '\n':
                    i += 1
                continue
        else:
            if c == '\\' and state == '"':
                i += 2; continue
            if src.startswith(state, i):
                i += len(state); state = None; continue
        i += 1
    return [i for i, l in enumerate(src.split('\n')) if l.strip() and not l.strip().startswith('#') and i not in open_at]


def inject(src, i, kind, r):
    """One fault on (or right after) 0-based line i. Returns (faulty text, 1-based fault line) or None."""
    lines = src.split('\n')
    l = lines[i]
    ind = len(l) - len(l.lstrip(' '))
    if kind == 'lexical':
        # an illegal character between two tokens, outside strings
        cands = [m.start() for m in re.finditer(r' ', l[ind:]) if l[:ind + m.start()].count('"') % 2 == 0]
        if not cands:
            pos = len(l)
            if l.count('"') % 2:
                return None
        else:
            pos = ind + r.choice(cands)
        lines[i] = l[:pos] + ' $ ' + l[pos:]
        return '\n'.join(lines), i + 1
    if kind == 'syntactic':
        cands = [m.start() for m in re.finditer(r' ', l[ind:]) if l[:ind + m.start()].count('"') % 2 == 0]
        tok = r.choice([' ) ', ' ] ', ' := := ', ' then then ', ' , , '])
        if not cands:
            if l.count('"') % 2:
                return None
            pos = len(l)
        else:
            pos = ind + r.choice(cands)
        lines[i] = l[:pos] + tok + l[pos:]
        return '\n'.join(lines), i + 1
    if kind == 'undefined-parent':
        # the parent named on a class header does not exist
        m = re.match(r'(\s*class \w+(?:\([^)]*\))?: )(\w+)(.*)$', l)
        if not m or m.group(2) == 'Exception':
            return None
        lines[i] = m.group(1) + m.group(2) + 'Zq' + m.group(3)
        return '\n'.join(lines), i + 1
    if kind in TYPE_FAULTS:
        # a wrongly typed local on a line of its own, after line i, indented like the following code line
        nxt = next((x for x in lines[i + 1:] if x.strip()), None)
        ni = len(nxt) - len(nxt.lstrip(' ')) if nxt is not None else 0
        if nxt is None or ni < ind:
            ni = ind if not l.rstrip().endswith(('then', '=>', 'do', 'else', 'handle')) and not re.match(r'\s*(class|type|match)\b', l) else None
        if ni is None:
            return None
        if re.match(r'\s*(class|type)\b', l) or (nxt is not None and re.match(r'\s*def \w+\(.*\)', nxt) and ni > 0 and not l.strip().startswith('def ')):
            return None
        # inside match/handle arm lists or class bodies a statement is not allowed
        if nxt is not None and ni > ind and re.match(r'\s*(match\b|.*\bhandle$)', l):
            return None
        lines.insert(i + 1, ' ' * ni + TYPE_FAULTS[kind])
        return '\n'.join(lines), i + 2
    if kind == 'truncation':
        # the last statement cut short so that the parser runs into the end of input
        if i != code_lines(src)[-1]:
            return None
        m = re.search(r'[\)\]]\s*$', l)
        if not m:
            return None
        lines[i] = l[:m.start()]
        return '\n'.join(lines), i + 1
    return None


def judge(w, files, part, origin, fault_file=None, fault_line=None, kind=None):
    """files: list of (path, text)."""
    res = w.pipe(files, annotate=False)
    k = res.get('k')
    if k == 'ok':
        part.count('fault-not-rejected' if kind else 'accepted'); part.evaluations += 1
        return
    if k != 'err':
        part.inconc('pipeline-' + str(k)); return
    part.count('rejected')
    st = w.stages(files, annotate=False)
    stage = (st.get('errs') or [{}])[0].get('stage', '?') if st.get('k') == 'err' else '?'
    part.count('stage:' + stage)
    fmap = {p: s for p, s in files}
    bad = check_diagnostics(res.get('errs', []), fmap, fault_file, fault_line, consequences_elsewhere=(kind or '').startswith('undefined-parent'))
    # localisation is judged for injected faults of the intended kind only (a lexical fault must be found by the lexer ...)
    if kind in ('lexical', 'syntactic', 'truncation') and stage != 'parse':
        bad = [b for b in bad if b[0] not in ('fault-line-not-mentioned', 'fault-reported-at-an-equal-expression-elsewhere')]
    wit = {'kind': 'diagnostics', 'origin': origin, 'files': files, 'fault': kind, 'fault_file': fault_file, 'fault_line': fault_line, 'stage': stage,
           'diagnostics': [e[:700] for e in res.get('errs', [])][:3]}
    if bad:
        for clause, detail in {b[0]: b[1] for b in bad}.items():
            # the equal-expression defect is one defect whatever statement was injected
            part.violation(f'{clause}:{stage}' if clause.startswith('fault-reported-at-an-equal') else f'{clause}:{stage}:{kind or "fuzz"}', dict(wit, detail=detail))
    else:
        part.held((stage, kind or 'fuzz', len(files)))
        if part.evaluations % 400 == 1:
            part.sample({'origin': origin, 'fault': kind, 'fault_line': fault_line, 'stage': stage, 'diagnostic': res['errs'][0][:300]})


def shard(i, n, nprog, nfuzz):
    w = Worker(watchdog=60); part = Partial()
    k = 0
    progs = []
    # the line-based fault injector assumes one statement per line: the attached-layout cells are left out
    cells = [c for c in sweeps.cells() if not c[0].endswith('/attached')]
    for kk, (cell, prog) in enumerate(cells):
        if kk % 23 == common.SEED % 23:
            progs.append(('sweep:' + cell, lang.to_mamba(prog)))
    for j in range(nprog):
        r = rng(PROP, 'gen', j)
        prog, _ = gen.generate(r, {'size': 1})
        src = lang.to_mamba(prog)
        if len(src.split('\n')) <= 40:
            progs.append((f'generated:{j}', src))
    progs += [('text:' + name, src) for name, src in TEXT_BASES.items()]
    for origin, src in progs:
        r = rng(PROP, 'faults', origin)
        # "an otherwise valid program": faults are only injected into programs the pipeline accepts
        if w.pipe(src, annotate=False).get('k') != 'ok':
            part.count('base-program-not-accepted')
            continue
        for li in code_lines(src):
            for kind in ('lexical', 'syntactic', 'truncation', 'undefined-parent') + tuple(r.sample(sorted(TYPE_FAULTS), 3)):
                k += 1
                if k % n != i:
                    continue
                # final-newline variants matter for end-of-input positions
                for tail in ('\n', '', '\n\n') if kind == 'truncation' else ('\n',):
                    inj = inject(src.rstrip('\n'), li, kind, r)
                    if inj is None:
                        continue
                    text, fl = inj
                    judge(w, [('prog.mamba', text + tail)], part, origin, 'prog.mamba', fl, kind)
                    part.count('fault:' + kind)
    # a declaration with an unresolvable parent in a long file, used by a SHORT file: positions must stay inside the file they name
    for name, (files, ffile, fline, good, badtxt) in SHORT_USER.items():
        k += 1
        if k % n != i:
            continue
        if w.pipe(files, annotate=False).get('k') != 'ok':
            part.count('base-program-not-accepted'); continue
        faulty = [(p_, ('\n'.join(l.replace(good, badtxt) if x + 1 == fline else l for x, l in enumerate(s_.split('\n'))) if p_ == ffile else s_)) for p_, s_ in files]
        judge(w, faulty, part, 'short-user-file:' + name, ffile, fline, 'undefined-parent')
        part.count('fault:short-user-file')
    # multi-file: fault in file k of n
    for j in range(max(4, nprog // 4)):
        k += 1
        if k % n != i:
            continue
        r = rng(PROP, 'project', j)
        proj = projects.generate(r)
        files = proj['files']
        for fi in range(len(files)):
            for kind in ('lexical', 'syntactic', 'undefined-parent') + tuple(r.sample(sorted(TYPE_FAULTS), 2)):
                cl = code_lines(files[fi][1])
                li = r.choice(cl)
                inj = inject(files[fi][1].rstrip('\n'), li, kind, r)
                if inj is None:
                    continue
                faulty = [(p, (inj[0] + '\n' if x == fi else s)) for x, (p, s) in enumerate(files)]
                judge(w, faulty, part, f'project:{j}', files[fi][0], inj[1], kind)
                part.count('multi-file-faults')
    # hostile streams: well-formedness clauses only
    corpus = [(rel, s) for rel, s in common.repo_samples('all') if len(s) < 2500]
    for j in range(nfuzz):
        k += 1
        if k % n != i:
            continue
        r = rng(PROP, 'fuzz', j)
        c = r.random()
        if c < 0.6:
            rel, s = r.choice(corpus); files = [(rel, inputs.mutate(s, r))]
        elif c < 0.7:
            files = inputs.hier_program(r)
        elif c < 0.8:
            files = [('in.mamba', inputs.type_fuzz_program(r))]
        elif c < 0.9:
            files = [('in.mamba', inputs.soup(r))]
        else:
            files = [('in.mamba', inputs.raw(r))]
        judge(w, files, part, 'fuzz')
        part.count('fuzz-inputs')
    for tag, files in inputs.adversarial():
        k += 1
        if k % n == i and not tag.startswith(('diamond-chain-16', 'diamond-chain-2', 'long-', 'nested-interpolation-1', 'nested-interpolation-2', 'nested-interpolation-print-1', 'nested-interpolation-print-2')):
            judge(w, files, part, 'adversarial:' + tag)
    for rel, src in common.repo_samples('invalid'):
        k += 1
        if k % n == i:
            judge(w, [(rel, src)], part, 'sample:' + rel)
    w.close()
    return part.dump()


def selftest():
    files = {'a.mamba': 'def x := 1\ndef y: Int := "s"\n'}
    good = 'In two types\n ──→ a.mamba:2:15\n   1 | def x := 1\n   2 | def y: Int := "s"\n                     ^^^\n'
    assert check_diagnostics([good], files, 'a.mamba', 2) == []
    assert check_diagnostics([good.replace('   2 | def y: Int := "s"', '   3 | def y: Int := "s"')], files, 'a.mamba', 2)
    assert check_diagnostics([good.replace('a.mamba:2:15', 'a.mamba:4:2')], files, 'a.mamba', 2)
    assert check_diagnostics([good.replace('a.mamba', '<unknown>')], files, 'a.mamba', 2)
    assert check_diagnostics([good], files, 'a.mamba', 1) == [] and check_diagnostics([good.replace('   1 | def x := 1\n', '')], files, 'a.mamba', 1)
    assert rust_lines('a\r\nb\r') == ['a', 'b\r'] and rust_lines('a\n\nb\n') == ['a', '', 'b']


def replay_entries(rep):
    rep.known_live = {}
    w = Worker(watchdog=60)
    entries = [(sig, wit) for sig, (wit, _) in rep.known.known.items()] + [(None, x[2]) for x in rep.known.fixed if x[2]]
    for sig, wit in entries:
        obj = json.load(open(os.path.join(common.ROOT, wit)))
        part = Partial()
        judge(w, [tuple(f) for f in obj['files']], part, 'finding:' + wit, obj.get('fault_file'), obj.get('fault_line'), obj.get('fault'))
        if sig is not None:
            rep.known_live[sig] = sig in part.violations
        else:
            rep.count('fixed-regressions-replayed')
        for s, (wt, c) in part.violations.items():
            rep.violation(s, wt)
    w.close()


def main(tier):
    common.build()
    selftest()
    rep = Report(PROP, tier, 'fault_enumeration')
    rep.rule = ('one evaluation = one rejected input whose returned diagnostics are parsed and checked: at least one diagnostic; a header naming one of the given files (the faulty one for '
                'injected faults); header position inside that file\'s text (Rust lines() semantics); every quoted `N | text` verbatim line N; for a fault injected on line L some header or '
                'quoted line number equal to L; workload: per line of each program one lexical, one syntactic and one type fault, truncation of the last statement with three final-newline '
                'forms, the same in every file of multi-file projects, and the rejected inputs of the hostile streams; distinct = distinct (rejecting stage, fault kind, #files)')
    rep.assumptions = ['localisation is judged for insertions on a line of their own / inside a line only, and for lexical/syntactic faults only when the parse stage rejects',
                       'line N is defined as the renderer defines it (Rust str::lines)']
    replay_entries(rep)
    nprog, nfuzz = (40, 6000) if tier == 'quick' else (1500, 300000)
    for d in run_shards(shard, (nprog, nfuzz)):
        rep.merge(d)
    floors = [('>= 1500 injected faults rejected and judged', sum(v for k, v in rep.cov.items() if k.startswith('fault:')) >= 1500),
              ('parse, check and context stages all seen as rejecting stage', all(rep.cov.get('stage:' + s, 0) > 0 for s in ('parse', 'check', 'context'))),
              ('>= 30 multi-file faults', rep.cov.get('multi-file-faults', 0) >= 30), ('>= 3000 rejected inputs judged', rep.cov.get('rejected', 0) >= 3000)]
    return rep.finish(floors)


def replay(path):
    common.build()
    obj = json.load(open(path))['witness']
    w = Worker(watchdog=60); part = Partial()
    judge(w, [tuple(f) for f in obj['files']], part, 'replay', obj.get('fault_file'), obj.get('fault_line'), obj.get('fault'))
    w.close()
    if part.violations:
        print(f'VIOLATION property={PROP} replay={path}')
        return 1
    print('replay: held')
    return 0
