"""C02 — every emitted file is syntactically valid Python 3.

Oracle: CPython's own compiler on the exact text the real pipeline returned (both flags), over the
generator workloads, all repository samples, the accepted survivors of the hostile streams (token-level
mutations, token soup, type-expression fuzz, adversarial shapes) and a catalogue of one-line / nested
statement and expression shapes."""
import json, os, re
from . import common, lang, gen, sweeps, inputs, pyrun
from .common import Partial, Report, Worker, rng, run_shards
from .shrink import shrink_text

PROP = 'C02'
PY_KEYWORDS = {'False', 'None', 'True', 'and', 'as', 'assert', 'async', 'await', 'break', 'class', 'continue', 'def', 'del', 'elif', 'else', 'except', 'finally', 'for', 'from',
               'global', 'if', 'import', 'in', 'is', 'lambda', 'nonlocal', 'not', 'or', 'pass', 'raise', 'return', 'try', 'while', 'with', 'yield', 'match', 'case'}
MAMBA_KEYWORDS = set(inputs.KEYWORDS)

# one-line and nested statement / expression shapes (each must be rejected or compile)
SHAPES = {
    'ifexpr-in-condition': 'def a := 1\ndef b := 5\ndef s := True\ndef v: Str := if (if s then a < b else a <= b) then "ok" else "big"\nprint(v)\n',
    'ifexpr-in-then': 'def a := 1\ndef v: Int := if a > 0 then (if a > 5 then 10 else 20) else 30\nprint(v)\n',
    'ifexpr-in-else': 'def a := 1\ndef v: Int := if a > 0 then 10 else (if a > 5 then 20 else 30)\nprint(v)\n',
    'ifexpr-both-nested': 'def a := 1\ndef v: Int := if (if a > 0 then True else False) then (if a > 5 then 1 else 2) else (if a < 0 then 3 else 4)\nprint(v)\n',
    'ifexpr-as-argument': 'def f(x: Int) -> Int => x\ndef a := 1\ndef v: Int := f(if a > 0 then 1 else 2)\nprint(v)\n',
    'oneline-if-return-both': 'def clamp(x: Int, hi: Int) -> Int =>\n    if x > hi then return hi else return x\nprint(clamp(5, 3))\n',
    'oneline-if-return-then': 'def clamp(x: Int, hi: Int) -> Int =>\n    if x > hi then return hi\n    x\nprint(clamp(5, 3))\n',
    'oneline-if-return-else-value': 'def clamp(x: Int, hi: Int) -> Int =>\n    if x > hi then return hi else x\nprint(clamp(5, 3))\n',
    'oneline-if-values': 'def clamp(x: Int, hi: Int) -> Int =>\n    if x > hi then hi else x\nprint(clamp(5, 3))\n',
    'oneline-if-print': 'def a := 1\nif a > 0 then print("p") else print("n")\n',
    'oneline-if-assign': 'def a := 1\nif a > 0 then a := 2 else a := 3\nprint(a)\n',
    'oneline-if-raise': 'class E1(msg: Str): Exception(msg)\ndef f(x: Int) -> Int raise [E1] =>\n    if x > 0 then raise E1("m") else x\nprint("e")\n',
    'oneline-if-raise-both': 'class E1(msg: Str): Exception(msg)\ndef f(x: Int) -> Int raise [E1] =>\n    if x > 0 then raise E1("m") else raise E1("n")\nprint("e")\n',
    'oneline-if-nested-raise': 'class E1(msg: Str): Exception(msg)\ndef f(x: Int) -> Int raise [E1] =>\n    if x > 0 then (if x > 5 then raise E1("m") else 1) else x\nprint("e")\n',
    'oneline-for': 'for i in 0 .. 2 do print(i)\n',
    'oneline-while': 'def k := 0\nwhile k < 1 do k := k + 1\nprint(k)\n',
    'oneline-match-arms': 'def a := 1\nmatch a\n    1 => print("one")\n    _ => print("o")\n',
    'match-arm-return': 'def f(a: Int) -> Str =>\n    match a\n        1 => return "one"\n        _ => return "o"\nprint(f(1))\n',
    'match-arm-ifexpr': 'def f(a: Int) -> Str =>\n    match a\n        1 => if a > 0 then "p" else "n"\n        _ => "o"\nprint(f(1))\n',
    'match-in-ifexpr-arm': 'def a := 1\ndef v := if a > 0 then 1 else 2\nmatch v\n    1 => print("1")\n    _ => print("_")\n',
    'handle-oneline-arms': 'class E1(msg: Str): Exception(msg)\ndef f() -> Int raise [E1] => 1\nf() handle\n    e: E1 => print("c")\n',
    'handle-arm-return': 'class E1(msg: Str): Exception(msg)\ndef f() -> Int raise [E1] => 1\ndef g() -> Int =>\n    f() handle\n        e: E1 => return 0\n    1\nprint(g())\n',
    'handle-def-arm-ifexpr': 'class E1(msg: Str): Exception(msg)\ndef f() -> Int raise [E1] => 1\ndef a := f() handle\n    e: E1 => if 1 > 0 then 1 else 2\nprint(a)\n',
    'lambda-ifexpr-body': 'def l := \\x: Int => if x > 0 then 1 else 2\nprint(l(1))\n',
    'lambda-in-call': 'def ap(h: (Int) -> Int, v: Int) -> Int => h(v)\nprint(ap(\\x: Int => x + 1, 2))\n',
    'lambda-two-params': 'def l := \\x: Int, y: Int => x + y\nprint(l(1, 2))\n',
    'nested-function-call-ifexpr': 'def f(x: Int) -> Int => x\nprint(f(f(if 1 > 0 then 1 else 2)))\n',
    'empty-class': 'class E\nprint("e")\n',
    'class-only-docstring': 'class D\n    """doc"""\nprint("d")\n',
    'function-only-pass': 'def f() => pass\nf()\n',
    'if-block-only-pass': 'if 1 > 0 then\n    pass\nprint("p")\n',
    'for-block-only-def': 'for i in 0 .. 2 do\n    def q := i\nprint("f")\n',
    'return-empty': 'def f() =>\n    print("a")\n    return\nf()\n',
    'tuple-of-tuples': 'def t := ((1, 2), (3, (4, 5)))\nprint("t")\n',
    'index-of-call': 'def f() -> List[Int] => [1, 2]\nprint(f()[0])\n',
    'slice': 'def xs := [1, 2, 3]\ndef ys := xs[0 :: 2]\nprint("s")\n',
    'set-builder': 'def s := {a | a in [1, 2], a > 1}\nprint("s")\n',
    'list-builder': 'def l := [a * 2 | a in 0 .. 3]\nprint("l")\n',
    'dict-literal': 'def d := {1 => "a", 2 => "b"}\nprint("d")\n',
    'in-operator': 'def xs := [1, 2]\ndef b := 1 in xs\nprint(b)\n',
    'is-operator': 'def a := 1\ndef b := a is a\nprint("i")\n',
    'isa-operator': 'class K\ndef k := K()\ndef b: Bool := k isa K\nprint("isa")\n',
    'bitwise': 'def a: Int := 6 _and_ 3\ndef b: Int := 6 _or_ 3\ndef c: Int := 6 _xor_ 3\ndef d: Int := _not_ 6\ndef e: Int := 1 << 3\ndef f: Int := 8 >> 2\nprint("b")\n',
    'enum-literal': 'def a := 2E3\nprint(a)\n',
    'with-statement': 'with open("f") as f do print(f)\n',
    'keywords-as-names': ''.join(f'def {k} := 1\n' for k in ['lambda', 'try', 'global', 'yield', 'assert', 'del', 'except', 'finally', 'nonlocal', 'async', 'await', 'elif']),
}
# every word that is reserved in Python but not in Mamba, alone, in each binding position (one rejected word must not hide the others)
for _k in ['lambda', 'try', 'global', 'yield', 'assert', 'del', 'except', 'finally', 'nonlocal', 'async', 'await', 'elif', 'is', 'or', 'and', 'not', 'None', 'exec', 'print', 'case', 'match', 'type', 'soft']:
    SHAPES[f'keyword:{_k}:variable'] = f'def {_k} := 1\nprint("k")\n'
    SHAPES[f'keyword:{_k}:parameter'] = f'def kf({_k}: Int) -> Int => {_k} + 1\nprint(kf(1))\n'
    SHAPES[f'keyword:{_k}:function'] = f'def {_k}(a: Int) -> Int => a\nprint("k")\n'
    SHAPES[f'keyword:{_k}:field'] = f'class KC(def {_k}: Int)\nprint("k")\n'
    SHAPES[f'keyword:{_k}:method'] = f'class KC\n    def {_k}(self) -> Int => 1\nprint("k")\n'
    SHAPES[f'keyword:{_k}:loop-variable'] = f'for {_k} in 0 .. 2 do print("k")\n'
    SHAPES[f'keyword:{_k}:class'] = f'class {_k}\n    def v: Int := 1\nprint("k")\n'
# else-if chains in value position with a statement-only branch somewhere in the chain
_E = 'class E1(msg: Str): Exception(msg)\n'
for _n, _chain in {'raise-in-nested-then': 'if x > 0 then 1 else if x < 0 then raise E1("neg") else 0', 'raise-in-last-else': 'if x > 0 then 1 else if x < 0 then 2 else raise E1("z")',
                   'raise-in-first-then': 'if x > 0 then raise E1("p") else if x < 0 then 2 else 0', 'three-levels-raise-in-middle': 'if x > 5 then 1 else if x > 3 then 2 else if x > 1 then raise E1("m") else 0',
                   'nested-in-then': 'if x > 0 then (if x > 5 then raise E1("b") else 1) else 0', 'all-values': 'if x > 0 then 1 else if x < 0 then 2 else 0'}.items():
    SHAPES[f'else-if:{_n}:function-value'] = _E + f'def cls(x: Int) -> Int raise [E1] => {_chain}\nprint("e")\n'
    SHAPES[f'else-if:{_n}:function-tail'] = _E + f'def cls(x: Int) -> Int raise [E1] =>\n    print("pre")\n    {_chain}\nprint("e")\n'
    SHAPES[f'else-if:{_n}:definition'] = _E + f'def cls(x: Int) -> Int raise [E1] =>\n    def v: Int := {_chain}\n    v\nprint("e")\n'
    SHAPES[f'else-if:{_n}:reassignment'] = _E + f'def cls(x: Int) -> Int raise [E1] =>\n    def v: Int := 0\n    v := {_chain}\n    v\nprint("e")\n'
    SHAPES[f'else-if:{_n}:return'] = _E + f'def cls(x: Int) -> Int raise [E1] =>\n    return {_chain}\nprint("e")\n'



def value_position_shapes():
    """value-producing compound constructs x the positions that consume a value, inside a function: the converter chooses between a
    conditional expression, assignments pushed into the branches and returns pushed into the branches - every combination once."""
    pre = 'class E1(msg: Str): Exception(msg)\ndef risky(k: Int) -> Int raise [E1] =>\n    if k > 2 then raise E1("m")\n    k\n' \
          'def riskyt(k: Int) -> (Int, Int) raise [E1] =>\n    if k > 2 then raise E1("m")\n    (k, k)\n\n'
    out = {}
    for tup in (False, True):
        A, B, T, call = ('(1, 2)', '(3, 4)', '(Int, Int)', 'riskyt(k)') if tup else ('1', '2', 'Int', 'risky(k)')
        values = {
            'if-block': ['if k > 1 then', '    @A@', 'else', '    @B@'],
            'if-oneline': ['if k > 1 then @A@ else @B@'],
            'if-block-nested': ['if k > 1 then', '    if k > 5 then', '        @A@', '    else', '        @B@', 'else', '    @B@'],
            'if-oneline-then-match': ['if k > 1 then match k', '    2 => @A@', '    _ => @B@', 'else @B@'],
            'match': ['match k', '    1 => @A@', '    _ => @B@'],
            'match-block-arms': ['match k', '    1 =>', '        print("one")', '        @A@', '    _ =>', '        @B@'],
            'handle': [f'{call} handle', '    err: E1 => @B@'],
            'handle-block-arm': [f'{call} handle', '    err: E1 =>', '        print("h")', '        @B@'],
        }
        for vname, vl in values.items():
            vl = [l.replace('@A@', A).replace('@B@', B) for l in vl]
            consumers = {
                'def': ['def v := ' + vl[0]] + vl[1:] + ['print("x")', B],
                'def-annotated': [f'def v: {T} := ' + vl[0]] + vl[1:] + ['print("x")', B],
                'reassign': [f'def v: {T} := {A}', 'v := ' + vl[0]] + vl[1:] + ['print("x")', B],
                'tail': vl,
                'return': ['return ' + vl[0]] + vl[1:],
                'tail-after-statement': ['print("pre")'] + vl,
                'in-loop-def': ['for z in 0 .. 2 do', '    def w := ' + vl[0]] + ['    ' + l for l in vl[1:]] + ['    print("l")', B],
            }
            if tup:
                consumers['def-tuple'] = ['def (va, vb) := ' + vl[0]] + vl[1:] + ['print("x")', B]
                consumers['def-tuple-annotated'] = [f'def (va, vb): {T} := ' + vl[0]] + vl[1:] + ['print("x")', B]
                consumers['def-fin-tuple'] = ['def fin (va, vb) := ' + vl[0]] + vl[1:] + ['print("x")', B]
            for cname, body in consumers.items():
                src = pre + f'def subj(k: Int) -> {T} =>\n' + ''.join('    ' + l + '\n' for l in body) + '\nprint("end")\n'
                out[f"value-position:{vname}:{cname}:{'tuple' if tup else 'int'}"] = src
    return out


SHAPES.update(value_position_shapes())
# spellings of numeric literals: mantissa x exponent (whatever the lexer lets through is copied into the output digit by digit)
for _m in ('0', '7', '07', '00', '1.5', '01.5', '0.5', '00.5', '1.50', '1.05', '10', '1_0'):
    for _e in ('', 'E0', 'E5', 'E05', 'E00', 'E10', 'E-3', 'E+3', 'E1.5', 'E', 'e5'):
        SHAPES[f'number:{_m}{_e}'] = f'def x := {_m}{_e}\nprint(x)\ndef y: Float := 2.0 * {_m}{_e}\n'
# a `with` (a statement in Python) where the converter looks for the value of a function / branch
_W = 'def res := 10\ndef log(x: Int) => print("v {x}")\n'
SHAPES.update({
    'with:function-tail': _W + 'def subj(k: Int) -> Int =>\n    log(k)\n    with res do\n        log(res + k)\nprint("end")\n',
    'with-as:function-tail': _W + 'def subj(k: Int) -> Int =>\n    with res as other: Int do\n        log(other + k)\nprint("end")\n',
    'with:function-body': _W + 'def subj(k: Int) -> Int => with res do log(k)\nprint("end")\n',
    'with:if-branch-tail': _W + 'def subj(k: Int) -> Int =>\n    if k > 1 then\n        with res do\n            log(k)\n    else\n        2\nprint("end")\n',
    'with:match-arm-tail': _W + 'def subj(k: Int) -> Int =>\n    match k\n        1 =>\n            with res do\n                log(k)\n        _ => 2\nprint("end")\n',
    'with:handle-arm-tail': _W + 'class E1(msg: Str): Exception(msg)\ndef risky(k: Int) -> Int raise [E1] => k\ndef subj(k: Int) -> Int =>\n    risky(k) handle\n        err: E1 =>\n'
                            '            with res do\n                log(k)\nprint("end")\n',
    'with:loop-body-tail': _W + 'def subj(k: Int) -> Int =>\n    for z in 0 .. k do\n        with res do\n            log(z)\n    k\nprint("end")\n',
    'with:def-value': _W + 'def subj(k: Int) -> Int =>\n    def v := with res do log(k)\n    k\nprint("end")\n',
    'with-as:nested': _W + 'def subj(k: Int) -> Int =>\n    with res as a: Int do\n        with res as b: Int do\n            log(a + b)\n    k\nprint("end")\n',
})


def norm_msg(m):
    m = re.sub(r"'[^']*'|\"[^\"]*\"", 'Q', m)
    m = re.sub(r'\(detected at line \d+\)|\(<[^>]*>, line \d+\)|line \d+', '', m)
    m = re.sub(r'\d+', 'N', m)
    return m.strip()[:80]


def cause_tags(w, src):
    """Small detectors on the (shrunk) Mamba input: which literal/identifier shape explains the refusal."""
    tags = set()
    r = w.lex(src)
    toks = r.get('toks', []) if r.get('k') == 'ok' else []
    prev = None
    for d, kind, lx, *_ in toks:
        if kind == 'Str':
            body = lx[1:-1]
            if '\n' in body: tags.add('Str!multiline')
            if re.search(r'\{[^}]*"', body): tags.add('Str!quote-inside-braces')
            if re.search(r'\{[^}]*[\[\(][^}\]\)]*\}', body) or body.count('{') != body.count('}'): tags.add('Str!odd-braces')
            if '\\' in body: tags.add('Str!backslash')
            if body == '' and d > 0: tags.add('Str!empty-in-interpolation')
        if kind == 'DocStr' and ('"""' in lx or lx.endswith('"') or '\\' in lx): tags.add('DocStr!quotes')
        if kind in ('Int', 'Real') and re.match(r'0\d', lx): tags.add('Num!leading0')
        if kind == 'ENum' and (lx.endswith('E') or lx.startswith('0') and len(lx) > 1 and lx[1].isdigit()): tags.add('ENum!odd')
        if kind == 'Real' and lx.endswith('.'): tags.add('Real!no-fraction')
        if kind == 'Id' and lx in PY_KEYWORDS and lx not in MAMBA_KEYWORDS: tags.add('Id!py-keyword')
        if kind == 'Id' and lx in ('True', 'False', 'None') and prev in ('Def', 'Fin', 'Comma', 'LRBrack', 'For', 'BSlash'): tags.add('binding!True-False-None')
        if kind == 'Id' and re.match(r'^__\w+__$', lx): tags.add('Id!dunder')
        if kind == 'Vararg': tags.add('vararg')
        if kind == 'Underscore': tags.add('underscore')
        if kind in ('Match',): tags.add('match')
        if kind == 'BSlash': tags.add('lambda')
        if kind == 'With': tags.add('with')
        if kind in ('Range', 'RangeIncl', 'Slice', 'SliceIncl'): tags.add('range-or-slice')
        if kind == 'Pass': tags.add('pass')
        if kind == 'Raise': tags.add('raise')
        if kind == 'Ret': tags.add('return')
        if kind == 'Handle': tags.add('handle')
        if kind == 'Import' or kind == 'From': tags.add('import')
        if kind == 'Class' or kind == 'Type': tags.add('class')
        if kind == 'If': tags.add('if')
        prev = kind if d == 0 else prev
    literal = {t for t in tags if '!' in t}
    return '+'.join(sorted(literal)) if literal else ('shape:' + '+'.join(sorted(tags)) if tags else 'no-tag')


def judge(w, files, part, origin, flags=(True, False), shrink=True, exact_sig=None):
    if isinstance(files, str):
        files = [('in.mamba', files)]
    for ann in flags:
        res = w.pipe(files, annotate=ann)
        k = res.get('k')
        if k == 'err':
            part.count('rejected'); part.evaluations += 1
            continue
        if k != 'ok':
            part.inconc('pipeline-' + str(k)); continue
        part.count('accepted')
        part.count('origin-accepted:' + origin.split(':')[0])
        bad = None
        for i, py in enumerate(res['py']):
            e = pyrun.compiles(py, files[i][0] + '.py')
            if e:
                bad = (i, e, py); break
        if bad is None:
            part.held((origin.split(':')[0], ann, len(res['py'][0]) // 150))
            if part.evaluations % 400 == 1:
                part.sample({'origin': origin, 'annotate': ann, 'mamba_head': files[0][1][:200], 'python_head': res['py'][0][:200], 'compiles': True})
            continue
        i, e, py = bad
        e, line, off = pyrun.compiles(py, files[i][0] + '.py', detail=True)
        msg = norm_msg(e)
        sig = exact_sig or f'pysyntax:{classify(msg, line, off)}'
        small = files[i][1]
        if shrink and len(files) == 1 and sig not in part.violations:
            def pred(t, ann=ann, sig=sig):
                r2 = w.pipe(t, annotate=ann)
                if r2.get('k') != 'ok':
                    return False
                d2 = pyrun.compiles(r2['py'][0], detail=True)
                return d2 is not None and f'pysyntax:{classify(norm_msg(d2[0]), d2[1], d2[2])}' == sig
            small = shrink_text(small, pred, budget=80)
        part.violation(sig, {'kind': 'module', 'origin': origin, 'annotate': ann, 'files': files, 'shrunk': small, 'python': py[:3000], 'cpython': e, 'line': line})


def line_shape(line):
    """First tokens of the offending Python line with identifiers, numbers and strings normalised."""
    toks = re.findall(r'[A-Za-z_]\w*|\d[\w.]*|"[^"]*"|\'[^\']*\'|[^\sA-Za-z_0-9]', line.strip())[:4]
    out = []
    for t in toks:
        if re.match(r'[A-Za-z_]', t):
            out.append(t if t in PY_KEYWORDS or t in ('print', 'range', 'self') else 'ID')
        elif t[0].isdigit():
            out.append('N')
        elif t[0] in '"\'':
            out.append('S')
        else:
            out.append(t)
    return ' '.join(out)


def classify(msg, line, off):
    """Cause class of a refusal, read off the emitted text: detectors for the shapes that are listed findings
    (each is a way in which the front end accepts something that has no Python form), else the CPython message
    plus the shape of the offending line - so that a printer regression lands in a signature of its own."""
    l = line.strip()
    kw = r'(if|match|for|while|try|with|class|def)'
    # a compound statement in the middle of a line (`x = -if c:`, `f(if True:`, `return + match v:`): statement used as value
    m = re.search(r'\S.*?\b' + kw + r'\b[^:]*:\s*$', l)
    if m and not re.match(kw + r'\b', l) and not re.match(r'(el)?if\b|else\b|case\b|except\b', l) and not re.search(r'\bif\b.*\belse\b', l) and 'lambda' not in l:
        return 'statement-used-as-value:' + re.search(r'\b' + kw + r'\b[^:]*:\s*$', l).group(1)
    if re.search(r'[(=,]\s*pass\b|\bpass\s+if\b|\belse\s+pass\b|\breturn\s+pass\b', l):
        return 'pass-used-as-value'
    if 'leading zeros' in msg:
        return 'leading-zero-literal'
    if 'makes remaining patterns unreachable' in msg:
        return 'irrefutable-case-not-last'
    if 'null bytes' in msg:
        return 'null-byte-in-string'
    # a double-quoted literal inside the braces of an f"..." (the tokenizer may complain about whatever follows the
    # premature closing quote, so the message alone does not name the cause)
    if 'f-string' in msg or re.search(r'\bf"[^"]*\{[^}"]*"', l):
        return 'f-string'
    if l.startswith('case ') or 'patterns may only match' in msg:
        return 'case-pattern-not-a-pattern'
    if re.search(r'\b(def|class)\s+(True|False|None)\b|\bas\s+(True|False|None)\b|\bimport\b.*\b(True|False|None)\b|^(True|False|None)\b.*=|[(,]\s*(True|False|None)\s*[:,)=]|\blambda\s+(True|False|None)\b', l) or 'cannot assign to' in msg:
        return 'binding-of-True-False-None-or-literal'
    if re.match(r'except\b.*\bas\s+(?![A-Za-z_]\w*\s*:)', l):
        return 'except-as-non-identifier'
    if re.match(r'(from\b.*)?import\b', l):
        return 'import-of-non-identifier'
    if 'duplicate argument' in msg or 'follows default argument' in msg or 'parameters cannot be parenthesized' in msg or re.search(r'\*\w+.*\*\w+', l):
        return 'parameter-list-not-pythonic'
    if l.startswith('=') or re.match(r'^\s*=', line) or re.search(r'^\s*,?\s*=', l):
        return 'empty-assignment-target'
    if 'unterminated string' in msg or 'invalid decimal literal' in msg or 'unmatched' in msg or 'EOL while scanning' in msg or 'unexpected character after line continuation' in msg:
        if l.count('"') >= 2:
            return 'string-content-breaks-quoting'
    if re.search(r'\[\s*,|,\s*\]|\[\s*\]', l) and ('->' in l or ':' in l):
        return 'empty-type-argument'
    return f'other:{msg}:{line_shape(line)}'


def shard(i, n, nfuzz, ngen):
    w = Worker(watchdog=60); part = Partial()
    k = 0
    for name, src in SHAPES.items():
        k += 1
        if k % n == i:
            judge(w, src, part, 'shape:' + name, shrink=False, exact_sig=None)
            part.count('shape-cells')
    for tag, files in inputs.adversarial():
        k += 1
        if tag.startswith(('diamond-chain-16', 'diamond-chain-2', 'long-', 'nested-interpolation-1', 'nested-interpolation-2', 'nested-interpolation-print-1', 'nested-interpolation-print-2')):
            continue        # cost shapes (C03's business); without a step budget they only burn the watchdog
        if k % n == i:
            judge(w, files, part, 'adversarial:' + tag)
    for rel, src in common.repo_samples('all'):
        k += 1
        if k % n == i:
            judge(w, [(rel, src)], part, 'sample:' + rel)
            part.count('samples')
    for kk, (cell, prog) in enumerate(sweeps.cells()):
        k += 1
        if k % n == i and kk % 4 == common.SEED % 4:
            judge(w, lang.to_mamba(prog), part, 'sweep:' + cell, shrink=False)
    for j in range(ngen):
        k += 1
        if k % n == i:
            r = rng(PROP, 'gen', j)
            prog, _ = gen.generate(r)
            if j % 3 == 1:
                prog['layout'] = j
            judge(w, lang.to_mamba(prog), part, f'generated:{j}')
    corpus = [(rel, s) for rel, s in common.repo_samples('all') if len(s) < 2500]
    gcorpus = [lang.to_mamba(p) for _, p in sweeps.cells()[::7]]
    for j in range(nfuzz):
        k += 1
        if k % n != i:
            continue
        r = rng(PROP, 'fuzz', j)
        c = r.random()
        if c < 0.5:
            rel, s = r.choice(corpus)
            judge(w, inputs.mutate(s, r), part, 'mutated-sample:' + rel, flags=(bool(j % 2),))
        elif c < 0.75:
            judge(w, inputs.mutate(r.choice(gcorpus), r), part, 'mutated-generated', flags=(bool(j % 2),))
        elif c < 0.9:
            judge(w, inputs.type_fuzz_program(r), part, 'typefuzz', flags=(True,))
        else:
            judge(w, inputs.soup(r), part, 'soup', flags=(bool(j % 2),))
        part.count('fuzz-inputs')
    w.close()
    return part.dump()


def replay_entries(rep):
    rep.known_live = {}
    w = Worker(watchdog=60)
    entries = [(sig, wit) for sig, (wit, _) in rep.known.known.items()] + [(None, x[2]) for x in rep.known.fixed if x[2]]
    for sig, wit in entries:
        p = os.path.join(common.ROOT, wit)
        src = open(p, encoding='utf-8', newline='').read() if wit.endswith('.mamba') else json.load(open(p))['mamba']
        part = Partial()
        judge(w, src, part, 'finding:' + wit, shrink=False)
        if sig is not None:
            rep.known_live[sig] = sig in part.violations
        else:
            rep.count('fixed-regressions-replayed')
        for s, (wt, c) in part.violations.items():
            rep.violation(s, wt)
    w.close()


def main(tier):
    common.build()
    assert pyrun.compiles('x = (1\n') and pyrun.compiles('x = 007\n') and pyrun.compiles('def f(:\n') and not pyrun.compiles('x = 1\n')
    rep = Report(PROP, tier, 'exploration')
    rep.rule = ('one evaluation = one (input, flag): if the real pipeline accepts it, every returned module goes through CPython compile(); distinct = distinct (origin kind, flag, '
                'output-size bucket) among compiling outputs; non-trivial = the pipeline accepted the input')
    rep.assumptions = ['CPython 3.11 compile() defines "valid Python 3"', 'a refusal is attributed to a cause tag found by small detectors in the shrunk Mamba input (literal shapes, '
                       'Python keywords as identifiers, ...); an input without such a shape gets the tag of its statement kinds, so a printer regression cannot hide behind a literal-shape finding']
    replay_entries(rep)
    nfuzz, ngen = (30000, 120) if tier == 'quick' else (500000, 4000)
    for d in run_shards(shard, (nfuzz, ngen)):
        rep.merge(d)
    acc_fuzz = sum(v for k, v in rep.cov.items() if k.startswith('origin-accepted:') and k.split(':')[1] in ('mutated-sample', 'mutated-generated', 'typefuzz', 'soup'))
    floors = [('>= 2% of fuzz inputs accepted', acc_fuzz >= 0.02 * nfuzz), ('>= 1500 accepted modules compiled', rep.cov.get('accepted', 0) >= 1500),
              (f'all {len(SHAPES)} shape cells evaluated', rep.cov.get('shape-cells', 0) == len(SHAPES))]
    return rep.finish(floors, extra_cov={'fuzz_inputs_accepted': acc_fuzz})


def replay(path):
    common.build()
    obj = json.load(open(path))['witness']
    w = Worker(watchdog=60); part = Partial()
    judge(w, [tuple(f) for f in obj['files']], part, 'replay', flags=(obj['annotate'],), shrink=False)
    w.close()
    if part.violations:
        print(f'VIOLATION property={PROP} replay={path}')
        return 1
    print('replay: held')
    return 0
