"""Shared by C01/C04/C08/C11/C16/C17: transpile a generated program with the real pipeline, execute the
emitted Python under CPython, and compare the observed behaviour with the reference interpreter."""
import re
from . import lang, pyrun


def norm_err(e):
    first = e.split('\n')[0]
    first = re.sub(r'@\d+', '@N', first)
    first = re.sub(r'\b[vpfimkhagE]\d+\b|\bC\d+\b|\bErr\d+\b', 'ID', first)
    first = re.sub(r'\d+', 'N', first)
    first = re.sub(r'"[^"]*"', 'S', first)
    return first[:110]


def expected(prog):
    """(lines, exception class) by the reference semantics, or None if the model declines."""
    try:
        it = lang.Interp(prog)
        out, exc = it.run()
        return out, exc
    except lang.Unsupported as u:
        return None
    except RecursionError:
        return None


def observe(py, modules=None):
    o = pyrun.run(py, modules)
    exc = o['exc']
    return o['lines'], exc, o


def compare(exp, obs_lines, obs_exc):
    """None if the observation matches the model, else a short description of the first divergence."""
    elines, eexc = exp
    if eexc != obs_exc:
        # user exception classes: the observed class name is the raised class
        return f'exception:{eexc}-vs-{obs_exc}'
    if elines != obs_lines:
        n = min(len(elines), len(obs_lines))
        i = next((i for i in range(n) if elines[i] != obs_lines[i]), n)
        if i >= len(elines):
            return 'extra-output'
        if i >= len(obs_lines):
            return 'missing-output'
        return 'line-differs'
    return None
