"""Generated multi-file projects (1-5 files in 0-3 nested directories) with cross-file class / function /
exception use in both dependency directions and in cycles. Shared by C12, C13, C19."""

DIRS = ['', '', 'pkg', 'pkg/sub', 'other', 'pkg/sub/deep']
NAMES = ['alpha', 'beta', 'gamma', 'delta', 'eps']


def generate(r, nfiles=None, all_root=False):
    n = nfiles or r.choice([1, 2, 3, 3, 3, 4, 5])
    names = r.sample(NAMES, n)
    dirs = [('' if all_root else r.choice(DIRS)) for _ in range(n)]
    paths = [(d + '/' if d else '') + nm + '.mamba' for d, nm in zip(dirs, names)]
    # definitions per file
    files = []
    # inheritance edges: class K_i may extend K_j of another file (no cycles in inheritance)
    order = list(range(n))
    r.shuffle(order)
    parent = {}
    for pos, i in enumerate(order):
        if pos > 0 and r.random() < 0.5:
            parent[i] = r.choice(order[:pos])
    uses = {i: [j for j in range(n) if j != i and r.random() < 0.6] for i in range(n)}   # may form cycles between files
    for i in range(n):
        nm = names[i]
        L = []
        # imports only work for flat module names on this tree; for nested files cross-file names are used without import
        for j in uses[i] + ([parent[i]] if i in parent else []):
            if dirs[j] == '' and r.random() < 0.7:
                imp = [f'K{names[j]}'] + ([f'fn_{names[j]}'] if r.random() < 0.5 else [])
                L.append(f"from {names[j]} import {', '.join(imp)}")
        L = sorted(set(L))
        L.append(f'class Ex{nm}(msg: Str): Exception(msg)')
        if i in parent:
            pj = names[parent[i]]
            L.append(f'class K{nm}(v: Int, def w{nm}: Int): K{pj}(v)')
        else:
            L.append(f'class K{nm}(def v: Int)')
        L.append(f'    def get_{nm}(self) -> Int => self.v + {i}')
        L.append(f'def fn_{nm}(a: Int) -> Int => a * {i + 2}')
        L.append(f'def may_{nm}(a: Int) -> Int raise [Ex{nm}] =>')
        L.append('    if a > 50 then')
        L.append(f'        raise Ex{nm}("big")')
        L.append('    a')
        for j in uses[i]:
            oj = names[j]
            c = r.randrange(4)
            if c == 0:
                args = '1, 2' if j in parent else '1'
                L.append(f'def o_{nm}_{oj} := K{oj}({args})')
                L.append(f'print(o_{nm}_{oj}.get_{oj}())')
            elif c == 1:
                L.append(f'print(fn_{oj}({i + 1}))')
            elif c == 2:
                L.append(f'may_{oj}(3) handle')
                L.append(f'    err: Ex{oj} => print("caught")')
            else:
                L.append(f'def take_{nm}_{oj}(x: K{oj}) -> Int => x.get_{oj}()')
        L.append(f'print("{nm}")')
        files.append((paths[i], '\n'.join(L) + '\n'))
    return {'files': files, 'names': names, 'dirs': dirs, 'uses': uses, 'parent': parent}


UNRELATED = 'class Zunrelated(def zq: Int)\n    def zget(self) -> Int => self.zq\ndef zfresh(a: Int) -> Int => a\nprint(zfresh(1))\n'

FAULTS = {
    'lexical': lambda src, r: inject(src, r, ' $ '),
    'syntactic': lambda src, r: inject(src, r, ' ) '),
    'type': lambda src, r: src + 'def zbad: Int := "not an int"\n',
}


def inject(src, r, what):
    lines = src.split('\n')
    idx = [i for i, l in enumerate(lines) if l.strip() and not l.strip().startswith('from ')]
    i = r.choice(idx)
    l = lines[i]
    cut = r.randrange(len(l) - len(l.lstrip()) + 1, len(l) + 1)
    lines[i] = l[:cut] + what + l[cut:]
    return '\n'.join(lines)
