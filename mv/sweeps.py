"""The systematic sweep: every construct of the executable core language in every context, once.
Deterministic (seed independent) regression backbone shared by C01, C02, C04, C11, C16, C17.
A cell is (payload name, context name) -> program (lang.py AST)."""
import copy
from .lang import INT, FLOAT, STR, BOOL


# ------------------------------------------------------------------ tiny AST constructors
def L(v):
    t = BOOL if isinstance(v, bool) else INT if isinstance(v, int) else FLOAT if isinstance(v, float) else STR
    return {'k': 'lit', 't': t, 'v': v}


def V(n, t=INT):
    return {'k': 'var', 'n': n, 't': t}


def B(op, l, r, t=INT):
    return {'k': 'bin', 'op': op, 'l': l, 'r': r, 't': t}


def P(e):
    return {'k': 'print', 'e': e}


def D(n, e, t=None, mut=True, ann=False):
    return {'k': 'def', 'n': n, 't': t or e.get('t', INT), 'mut': mut, 'ann': ann, 'e': e}


def A(n, e):
    return {'k': 'asg', 'n': n, 'e': e}


def CALL(f, *args, t=INT):
    return {'k': 'call', 'f': f, 'args': list(args), 't': t}


def FS(*parts):
    return {'k': 'fstr', 'parts': list(parts), 't': STR}


def FUN(name, params, ret, body, raises=()):
    return {'name': name, 'params': [{'n': n, 't': t, 'd': d} for n, t, d in params], 'ret': ret, 'raises': list(raises), 'body': body}


def VAL(e):
    return {'k': 'val', 'e': e}


def IF(c, th, el=None):
    return {'k': 'if', 'c': c, 'th': th, 'el': el}


def FOR(v, a, b, body, incl=False, step=None):
    return {'k': 'for', 'v': v, 'r': {'a': a, 'b': b, 'incl': incl, 'step': step}, 'body': body}


def MATCH(e, arms):
    return {'k': 'match', 'e': e, 'arms': arms}


def EXC(name, parent='Exception'):
    return {'name': name, 'is_exc': True, 'args': [{'n': 'msg', 't': STR, 'field': False}],
            'parents': [{'name': parent, 'args': [V('msg', STR)]}], 'members': []}


def RAISE(c, msg='m'):
    return {'k': 'raise', 'c': c, 'msg': msg}


def HANDLE(call, arms, bind=None, t=INT):
    st = {'k': 'handle', 'e': call, 'arms': arms}
    if bind:
        st.update(bind=bind, t=t, mut=False, ann=False)
    return st


# ------------------------------------------------------------------ payloads
def payloads():
    """name -> dict(classes, funs, stmts, flags). stmts are self-contained and print observable values."""
    out = {}

    def add(name, stmts, classes=(), funs=(), top_only=False):
        out[name] = {'classes': list(classes), 'funs': list(funs), 'stmts': stmts, 'top_only': top_only}

    # operators by operand type, incl. negative and zero operands
    for op in ['+', '-', '*', '//', 'mod']:
        add(f'int{op}', [D('a', L(7)), D('b', L(3)), D('z', B('-', L(0), L(5))), P(B(op, V('a'), V('b'))), P(B(op, V('z'), V('b'))),
                         P(B(op, L(0), V('b')))])
    add('int^', [D('a', L(3)), P(B('^', V('a'), L(2))), P(B('^', V('a'), L(0))), P(B('^', L(2), L(10)))])
    for op in ['+', '-', '*', '/']:
        add(f'float{op}', [D('x', L(2.5)), D('y', L(0.5)), P(B(op, V('x', FLOAT), V('y', FLOAT), FLOAT)), P(B(op, V('x', FLOAT), L(2), FLOAT))])
    add('int/', [P(B('/', L(7), L(2), FLOAT)), P(B('/', L(8), L(4), FLOAT))])
    add('str+', [D('s', L('ab')), P(B('+', V('s', STR), L('cd'), STR)), P(B('+', B('+', V('s', STR), L('-'), STR), V('s', STR), STR))])
    for op in ['<', '<=', '>', '>=', '=']:
        add(f'cmp{op}', [D('a', L(2)), D('b', L(3)), P(B(op, V('a'), V('b'), BOOL)), P(B(op, V('b'), V('a'), BOOL)), P(B(op, V('a'), V('a'), BOOL)),
                         P(B(op, L(1.5), L(2.5), BOOL))])
    add('strcmp', [D('s', L('a')), P(B('=', V('s', STR), L('a'), BOOL)), P(B('!=', V('s', STR), L('a'), BOOL)), P(B('!=', V('s', STR), L('b'), BOOL))])
    add('bool', [D('p', L(True)), D('q', L(False)), P(B('and', V('p', BOOL), V('q', BOOL), BOOL)), P(B('or', V('p', BOOL), V('q', BOOL), BOOL)),
                 P({'k': 'not', 'e': V('p', BOOL), 't': BOOL}), P(B('or', {'k': 'not', 'e': V('p', BOOL), 't': BOOL}, V('q', BOOL), BOOL)),
                 P({'k': 'not', 'e': B('and', V('p', BOOL), V('q', BOOL), BOOL), 't': BOOL})])
    add('grouping', [D('a', L(2)), D('b', L(3)), D('c', L(4)), P(B('*', B('+', V('a'), V('b')), V('c'))), P(B('-', V('a'), B('-', V('b'), V('c')))),
                     P(B('-', B('-', V('a'), V('b')), V('c'))), P(B('//', B('*', V('c'), V('b')), B('+', V('a'), L(1)))),
                     P(B('^', B('+', V('a'), L(1)), L(2))), P(B('mod', B('*', V('c'), V('c')), B('+', V('b'), V('a'))))])
    # every (parent, child, side) pair of the Int operators, with operands that tell the groupings apart
    IOPS = ['+', '-', '*', '//', 'mod', '^']
    for pop in IOPS:
        st = [D('a', L(7)), D('b', L(5)), D('d', L(2))]
        for cop in IOPS:
            st.append(P(B(pop, V('a'), B(cop, V('b'), V('d')))))      # a p (b c d)
            st.append(P(B(pop, B(cop, V('a'), V('b')), V('d'))))      # (a c b) p d
        add(f'pairs{pop}', st)
    add('pairs-cmp-bool', [D('a', L(7)), D('b', L(5)), D('d', L(2)), D('p', L(True)), D('q', L(False)),
                           P(B('<', B('+', V('a'), V('b')), B('*', V('b'), V('d')), BOOL)), P(B('=', B('mod', V('a'), V('d')), B('-', V('b'), L(4)), BOOL)),
                           P(B('and', B('or', V('p', BOOL), V('q', BOOL), BOOL), V('q', BOOL), BOOL)), P(B('or', V('p', BOOL), B('and', V('q', BOOL), V('q', BOOL), BOOL), BOOL)),
                           P(B('and', {'k': 'not', 'e': V('q', BOOL), 't': BOOL}, B('>', V('a'), V('b'), BOOL), BOOL)),
                           P({'k': 'not', 'e': B('or', V('q', BOOL), B('<', V('a'), V('b'), BOOL), BOOL), 't': BOOL})])
    add('sqrt', [D('r', {'k': 'sqrt', 'e': L(16), 't': FLOAT}, FLOAT), P(V('r', FLOAT)), D('r2', {'k': 'sqrt', 'e': L(2.25), 't': FLOAT}, FLOAT), P(V('r2', FLOAT))])
    add('neg', [D('a', L(5)), D('n', {'k': 'neg', 'e': V('a'), 't': INT}, INT, ann=True), P(V('n')), D('m', {'k': 'neg', 'e': B('-', V('a'), L(7)), 't': INT}, INT, ann=True), P(V('m'))])
    # ranges
    for incl in (False, True):
        for step, sname in ((None, ''), (1, '+1'), (2, '+2'), (3, '+3'), (-1, '-1'), (-2, '-2')):
            for a, b, shape in ((0, 0, 'empty'), (1, 2, 'one'), (0, 4, 'exact'), (0, 5, 'skip'), (1, 7, 'long')):
                if step is not None and step < 0:
                    a, b = b, a
                name = f"range{'..=' if incl else '..'}{sname}/{shape}"
                add(name, [FOR('i', L(a), L(b), [P(V('i'))], incl, L(step) if step is not None else None), P(L('end'))])
    add('range-expr-bounds', [D('n', L(3)), FOR('i', B('-', V('n'), L(2)), B('+', V('n'), L(1)), [P(B('*', V('i'), V('n')))]),
                              FOR('j', L(0), V('n'), [P(V('j'))], True)])
    add('range-var-step', [D('s', L(2)), FOR('i', L(0), L(6), [P(V('i'))], True, V('s')), D('m', B('-', L(0), L(3))), FOR('j', L(6), L(0), [P(V('j'))], True, V('m'))])
    add('range-negated-var-step', [D('back', B('-', L(0), L(2))), FOR('i', L(1), L(5), [P(V('i'))], True, {'k': 'neg', 'e': V('back'), 't': INT}),
                                   D('dd', L(3)), FOR('j', L(6), L(0), [P(V('j'))], True, {'k': 'neg', 'e': V('dd'), 't': INT}),
                                   FOR('m', L(6), L(0), [P(V('m'))], False, {'k': 'neg', 'e': V('dd'), 't': INT}),
                                   FOR('n', L(0), L(6), [P(V('n'))], True, {'k': 'neg', 'e': B('-', V('back'), L(1)), 't': INT})])
    add('nested-for', [FOR('i', L(0), L(2), [FOR('j', L(0), L(2), [P(B('+', B('*', V('i'), L(10)), V('j')))], True)])])
    # control flow
    add('if', [D('a', L(3)), IF(B('>', V('a'), L(2), BOOL), [P(L('big'))]), IF(B('>', V('a'), L(5), BOOL), [P(L('huge'))]), P(L('after'))])
    add('if-else', [D('a', L(3)), IF(B('>', V('a'), L(5), BOOL), [P(L('then'))], [P(L('else'))]), IF(B('<', V('a'), L(5), BOOL), [P(L('then2'))], [P(L('else2'))])])
    add('if-elif-chain', [D('a', L(3)), IF(B('<', V('a'), L(1), BOOL), [P(L('one'))], [IF(B('<', V('a'), L(4), BOOL), [P(L('two'))], [P(L('three'))])])])
    add('if-expr', [D('a', L(3)), D('s', {'k': 'ife', 'c': B('>', V('a'), L(2), BOOL), 'a': L('yes'), 'b': L('no'), 't': STR}, STR, ann=True), P(V('s', STR)),
                    D('n', {'k': 'ife', 'c': B('>', V('a'), L(9), BOOL), 'a': B('+', V('a'), L(1)), 'b': B('-', V('a'), L(1)), 't': INT}, INT, ann=True), P(V('n'))])
    add('match-lit', [D('a', L(2)), MATCH(V('a'), [(('lit', INT, 1), [P(L('one'))]), (('lit', INT, 2), [P(L('two'))]), (('wild',), [P(L('other'))])])])
    add('match-wild', [D('a', L(9)), MATCH(V('a'), [(('lit', INT, 1), [P(L('one'))]), (('wild',), [P(L('other'))])]), P(L('after'))])
    add('match-bind', [D('a', L(9)), MATCH(B('+', V('a'), L(1)), [(('lit', INT, 1), [P(L('one'))]), (('bind', 'm'), [P(B('*', V('m'), L(2)))])])])
    add('match-first-wins', [D('a', L(1)), MATCH(V('a'), [(('lit', INT, 1), [P(L('first'))]), (('bind', 'm'), [P(L('second'))])])])
    add('while', [D('k', L(0)), {'k': 'while', 'c': B('<', V('k'), L(3), BOOL), 'body': [P(V('k')), A('k', B('+', V('k'), L(1)))]}, P(V('k'))])
    add('while-false', [D('k', L(5)), {'k': 'while', 'c': B('<', V('k'), L(3), BOOL), 'body': [P(L('never')), A('k', B('+', V('k'), L(1)))]}, P(L('done'))])
    add('for-list', [D('xs', {'k': 'lst', 'es': [L(3), L(1), L(2)], 't': 'List[Int]'}, 'List[Int]'), {'k': 'forin', 'v': 'x', 'coll': V('xs', 'List[Int]'), 'body': [P(B('*', V('x'), L(2)))]}])
    add('list-index', [D('xs', {'k': 'lst', 'es': [L(3), L(1), L(2)], 't': 'List[Int]'}, 'List[Int]'), P({'k': 'idx', 'o': V('xs', 'List[Int]'), 'i': L(0), 't': INT}),
                       P({'k': 'idx', 'o': V('xs', 'List[Int]'), 'i': L(2), 't': INT})])
    # definitions and assignment
    add('def-forms', [D('a', L(1)), D('b', L(2), mut=False), D('c', L(3), INT, ann=True), D('d', L(1), FLOAT, ann=True), P(V('a')), P(V('b')), P(V('c')), P(V('d', FLOAT))])
    add('def-tuple', [{'k': 'deftup', 'ns': ['x', 'y'], 'ts': [INT, STR], 'mut': True, 'e': {'k': 'tup', 'es': [L(1), L('s')], 't': '(Int, Str)'}}, P(V('x')), P(V('y', STR))])
    # nested tuple targets (the components are only usable as arguments: the checker gives them no type of their own)
    f_id = FUN('idf', [('a', INT, None)], INT, [VAL(B('+', V('a'), L(0)))])
    tup3 = {'k': 'tup', 'es': [L(3), {'k': 'tup', 'es': [L(4), L(5)], 't': '(Int, Int)'}], 't': '(Int, (Int, Int))'}
    add('def-nested-tuple', [{'k': 'deftup', 'ns': ['xo', ['x', 'xp']], 'ts': [INT, INT, INT], 'mut': True, 'annt': '(Int, (Int, Int))', 'e': tup3},
                             P(CALL('idf', V('x'))), P(CALL('idf', V('xp'))), P(CALL('idf', V('xo')))], funs=[f_id])
    tup3b = {'k': 'tup', 'es': [{'k': 'tup', 'es': [L(6), L(7)], 't': '(Int, Int)'}, L(8)], 't': '((Int, Int), Int)'}
    add('def-nested-tuple-first', [{'k': 'deftup', 'ns': [['x', 'xp'], 'xo'], 'ts': [INT, INT, INT], 'mut': False, 'annt': '((Int, Int), Int)', 'e': tup3b},
                                   P(CALL('idf', V('x'))), P(CALL('idf', V('xp'))), P(CALL('idf', V('xo')))], funs=[f_id])
    add('reassign', [D('a', L(1)), A('a', B('+', V('a'), L(5))), P(V('a')), A('a', L(0)), P(V('a'))])
    for op in ['+=', '-=', '*=']:
        add(f'aug{op}', [D('a', L(6)), {'k': 'aug', 'n': 'a', 'op': op, 'e': L(3)}, P(V('a')), {'k': 'aug', 'n': 'a', 'op': op, 'e': B('+', V('a'), L(1))}, P(V('a'))])
    add('aug/=', [D('x', L(6.0)), {'k': 'aug', 'n': 'x', 'op': '/=', 'e': L(4.0)}, P(V('x', FLOAT))])
    add('aug^=', [D('a', L(3)), {'k': 'aug', 'n': 'a', 'op': '^=', 'e': L(2)}, P(V('a'))])
    add('shadow', [D('a', L(1)), P(V('a')), D('a', L('s')), P(V('a', STR))])
    add('fstring', [D('a', L(4)), D('s', L('w')), D('f', L(1.5)), D('p', L(True)), P(FS('a=', V('a'), ' s=', V('s', STR), ' f=', V('f', FLOAT), ' p=', V('p', BOOL))),
                    P(FS('sum ', B('+', V('a'), L(1)), '!')), P(FS(V('a'), V('a')))])
    # functions
    f_def = FUN('addd', [('a', INT, None), ('b', INT, L(10)), ('c', INT, L(100))], INT, [VAL(B('+', B('+', V('a'), V('b')), V('c')))])
    add('fun-defaults', [P(CALL('addd', L(1))), P(CALL('addd', L(1), L(2))), P(CALL('addd', L(1), L(2), L(3)))], funs=[f_def])
    f_tail = FUN('pick', [('k', INT, None)], STR, [IF(B('<', V('k'), L(1), BOOL), [VAL(L('neg'))],
                                                     [MATCH(V('k'), [(('lit', INT, 1), [VAL(L('one'))]), (('lit', INT, 2), [P(L('side')), VAL(L('two'))]), (('wild',), [VAL(L('many'))])])])])
    add('fun-implicit-return-nested', [P(CALL('pick', L(0), t=STR)), P(CALL('pick', L(1), t=STR)), P(CALL('pick', L(2), t=STR)), P(CALL('pick', L(7), t=STR))], funs=[f_tail])
    f_ret = FUN('early', [('k', INT, None)], INT, [IF(B('>', V('k'), L(5), BOOL), [{'k': 'ret', 'e': L(99)}]), D('t', B('*', V('k'), L(2))), {'k': 'ret', 'e': V('t')}])
    add('fun-explicit-return', [P(CALL('early', L(9))), P(CALL('early', L(2)))], funs=[f_ret])
    f_rec = FUN('fact', [('n', INT, None)], INT, [IF(B('<=', V('n'), L(1), BOOL), [VAL(L(1))], [VAL(B('*', V('n'), CALL('fact', B('-', V('n'), L(1)))))])])
    add('fun-recursion', [P(CALL('fact', L(5))), P(CALL('fact', L(1)))], funs=[f_rec])
    f_side = FUN('noisy', [('k', INT, None)], INT, [P(FS('noisy ', V('k'))), VAL(B('+', V('k'), L(1)))])
    add('fun-call-order', [P(B('+', CALL('noisy', L(1)), CALL('noisy', L(10)))), D('t', CALL('noisy', CALL('noisy', L(3)))), P(V('t'))], funs=[f_side])
    f_str = FUN('greet', [('who', STR, L('you')), ('n', INT, L(2))], STR, [VAL(B('+', FS('hi ', V('who', STR)), FS(' x', V('n')), STR))])
    add('fun-str-defaults', [P(CALL('greet', t=STR)), P(CALL('greet', L('bob'), t=STR)), P(CALL('greet', L('al'), L(5), t=STR))], funs=[f_str])
    # classes
    acct = {'name': 'Acct', 'args': [{'n': 'owner', 't': STR, 'field': True, 'mut': True}, {'n': 'start', 't': INT, 'field': True, 'mut': True}], 'parents': [],
            'members': [{'k': 'field', 'n': 'count', 't': INT, 'mut': True, 'e': L(0)},
                        {'k': 'field', 'n': 'kind', 't': STR, 'mut': False, 'e': L('basic')},
                        {'k': 'method', 'name': 'deposit', 'self': 'self', 'params': [{'n': 'amt', 't': INT, 'd': L(1)}], 'ret': INT, 'raises': [],
                         'body': [{'k': 'fasg', 'o': V('self', 'Acct'), 'f': 'start', 'e': B('+', {'k': 'fld', 'o': V('self', 'Acct'), 'f': 'start', 't': INT}, V('amt'))},
                                  {'k': 'fasg', 'o': V('self', 'Acct'), 'f': 'count', 'e': B('+', {'k': 'fld', 'o': V('self', 'Acct'), 'f': 'count', 't': INT}, L(1))},
                                  VAL({'k': 'fld', 'o': V('self', 'Acct'), 'f': 'start', 't': INT})]},
                        {'k': 'method', 'name': 'label', 'self': 'fin', 'params': [], 'ret': STR, 'raises': [],
                         'body': [VAL(FS({'k': 'fld', 'o': V('self', 'Acct'), 'f': 'owner', 't': STR}, ':', {'k': 'fld', 'o': V('self', 'Acct'), 'f': 'start', 't': INT},
                                         ':', {'k': 'fld', 'o': V('self', 'Acct'), 'f': 'kind', 't': STR}))]}]}

    def new_acct(n='ann', s=5):
        return {'k': 'new', 'c': 'Acct', 'args': [L(n), L(s)], 't': 'Acct'}

    def mc(o, m, *args, t=INT):
        return {'k': 'mcall', 'o': V(o, 'Acct'), 'm': m, 'args': list(args), 't': t}
    add('class-ctor-fields', [D('a', new_acct(), 'Acct'), P({'k': 'fld', 'o': V('a', 'Acct'), 'f': 'owner', 't': STR}), P({'k': 'fld', 'o': V('a', 'Acct'), 'f': 'start', 't': INT}),
                              P({'k': 'fld', 'o': V('a', 'Acct'), 'f': 'count', 't': INT}), P({'k': 'fld', 'o': V('a', 'Acct'), 'f': 'kind', 't': STR})], classes=[acct])
    add('class-method-update', [D('a', new_acct(), 'Acct'), P(mc('a', 'deposit')), P(mc('a', 'deposit', L(10))), P({'k': 'fld', 'o': V('a', 'Acct'), 'f': 'count', 't': INT}),
                                P(mc('a', 'label', t=STR))], classes=[acct])
    add('class-field-assign', [D('a', new_acct(), 'Acct'), {'k': 'fasg', 'o': V('a', 'Acct'), 'f': 'start', 'e': L(42)}, {'k': 'fasg', 'o': V('a', 'Acct'), 'f': 'owner', 'e': L('bo')},
                               P(mc('a', 'label', t=STR))], classes=[acct])
    add('class-two-instances', [D('a', new_acct('a', 1), 'Acct'), D('b', new_acct('b', 2), 'Acct'), P(mc('a', 'deposit', L(5))), P(mc('b', 'deposit')),
                                P({'k': 'fld', 'o': V('a', 'Acct'), 'f': 'count', 't': INT}), P({'k': 'fld', 'o': V('b', 'Acct'), 'f': 'start', 't': INT})], classes=[acct])
    sav = {'name': 'Sav', 'args': [{'n': 'owner', 't': STR, 'field': False}, {'n': 'start', 't': INT, 'field': False}, {'n': 'rate', 't': INT, 'field': True, 'mut': True}],
           'parents': [{'name': 'Acct', 'args': [V('owner', STR), V('start')]}],
           'members': [{'k': 'method', 'name': 'grow', 'self': 'self', 'params': [], 'ret': INT, 'raises': [],
                        'body': [VAL(B('*', {'k': 'fld', 'o': V('self', 'Sav'), 'f': 'start', 't': INT}, {'k': 'fld', 'o': V('self', 'Sav'), 'f': 'rate', 't': INT}))]}]}
    add('class-inherit', [D('s', {'k': 'new', 'c': 'Sav', 'args': [L('sue'), L(4), L(3)], 't': 'Sav'}, 'Sav'), P({'k': 'mcall', 'o': V('s', 'Sav'), 'm': 'grow', 'args': [], 't': INT}),
                          P({'k': 'mcall', 'o': V('s', 'Sav'), 'm': 'deposit', 'args': [L(6)], 't': INT}), P({'k': 'mcall', 'o': V('s', 'Sav'), 'm': 'grow', 'args': [], 't': INT}),
                          P({'k': 'mcall', 'o': V('s', 'Sav'), 'm': 'label', 'args': [], 't': STR}), P({'k': 'fld', 'o': V('s', 'Sav'), 'f': 'rate', 't': INT})], classes=[acct, sav])
    pt = {'name': 'Pt', 'args': [], 'parents': [],
          'members': [{'k': 'field', 'n': 'x', 't': INT, 'mut': True, 'e': None}, {'k': 'field', 'n': 'y', 't': INT, 'mut': True, 'e': None},
                      {'k': 'method', 'name': '__init__', 'self': 'self', 'params': [{'n': 'x', 't': INT, 'd': None}, {'n': 'y', 't': INT, 'd': None}], 'ret': None, 'raises': [],
                       'body': [{'k': 'fasg', 'o': V('self', 'Pt'), 'f': 'x', 'e': V('x')}, {'k': 'fasg', 'o': V('self', 'Pt'), 'f': 'y', 'e': B('*', V('y'), L(2))}]},
                      {'k': 'method', 'name': 'total', 'self': 'fin', 'params': [], 'ret': INT, 'raises': [],
                       'body': [VAL(B('+', {'k': 'fld', 'o': V('self', 'Pt'), 'f': 'x', 't': INT}, {'k': 'fld', 'o': V('self', 'Pt'), 'f': 'y', 't': INT}))]}]}
    add('class-explicit-init', [D('p', {'k': 'new', 'c': 'Pt', 'args': [L(1), L(2)], 't': 'Pt'}, 'Pt'), P({'k': 'mcall', 'o': V('p', 'Pt'), 'm': 'total', 'args': [], 't': INT}),
                                P({'k': 'fld', 'o': V('p', 'Pt'), 'f': 'y', 't': INT})], classes=[pt])
    # exceptions
    e1, e2, e3 = EXC('E1'), EXC('E2', 'E1'), EXC('E3')
    thrower = FUN('risky', [('k', INT, None)], INT, [IF(B('>', V('k'), L(5), BOOL), [RAISE('E2', 'big')]), IF(B('>', V('k'), L(2), BOOL), [RAISE('E1', 'mid')]),
                                                     IF(B('<', V('k'), L(0), BOOL), [RAISE('E3', 'neg')]), VAL(B('*', V('k'), L(2)))], raises=['E1', 'E3'])
    mid = FUN('middle', [('k', INT, None)], INT, [P(FS('mid ', V('k'))), VAL(B('+', CALL('risky', V('k')), L(1)))], raises=['E1', 'E3'])
    outer = FUN('outerf', [('k', INT, None)], INT, [D('r', CALL('middle', V('k'))), P(L('outer done')), VAL(V('r'))], raises=['E1', 'E3'])
    EX = dict(classes=[e1, e2, e3], funs=[thrower, mid, outer])

    def h(call, arms, bind=None):
        return HANDLE(call, arms, bind)
    add('handle-stmt-exact', [h(CALL('risky', L(3)), [('E1', 'err', [P(L('caught E1'))]), ('E3', 'err', [P(L('caught E3'))])]), P(L('after'))], **EX)
    add('handle-stmt-noraise', [h(CALL('risky', L(1)), [('E1', 'err', [P(L('caught E1'))]), ('E3', 'err', [P(L('caught E3'))])]), P(L('after'))], **EX)
    add('handle-subclass-by-ancestor', [h(CALL('risky', L(9)), [('E1', 'err', [P(L('caught as E1'))]), ('E3', 'err', [P(L('caught E3'))])]), P(L('after'))], **EX)
    add('handle-arm-order', [h(CALL('risky', L(9)), [('E2', 'err', [P(L('sub first'))]), ('E1', 'err', [P(L('super'))]), ('E3', 'err', [P(L('e3'))])]),
                             h(CALL('risky', L(3)), [('E2', 'err', [P(L('sub first'))]), ('E1', 'err', [P(L('super'))]), ('E3', 'err', [P(L('e3'))])])], **EX)
    add('handle-exception-base', [h(CALL('risky', L(-1)), [('Exception', 'err', [P(L('any'))])]), h(CALL('risky', L(9)), [('Exception', 'err', [P(L('any2'))])])], **EX)
    add('handle-def', [h(CALL('risky', L(3)), [('E1', 'err', [VAL(B('-', L(0), L(1)))]), ('E3', 'err', [VAL(B('-', L(0), L(3)))])], bind='r'), P(V('r')),
                       h(CALL('risky', L(2)), [('E1', 'err', [VAL(B('-', L(0), L(1)))]), ('E3', 'err', [VAL(B('-', L(0), L(3)))])], bind='s'), P(V('s'))], **EX)
    add('raise-through-frames', [h(CALL('outerf', L(3)), [('E1', 'err', [P(L('E1 at top'))]), ('E3', 'err', [P(L('E3 at top'))])]),
                                 h(CALL('outerf', L(1)), [('E1', 'err', [P(L('E1 at top'))]), ('E3', 'err', [P(L('E3 at top'))])])], **EX)
    add('handle-nested', [h(CALL('risky', L(3)), [('E1', 'err', [P(L('outer arm')), h(CALL('risky', L(-2)), [('E3', 'err2', [P(L('inner E3'))]), ('E1', 'err2', [P(L('inner E1'))])])]),
                                                   ('E3', 'err', [P(L('outer E3'))])])], **EX)
    # bodies that ARE one compound statement (no enclosing block when printed in the attached layout): the function ends by falling out of it
    RET = lambda e: {'k': 'ret', 'e': e}
    f_loop = FUN('firstbig', [('n', INT, None)], INT, [FOR('i', L(0), V('n'), [IF(B('>', B('*', V('i'), V('i')), L(10), BOOL), [RET(V('i'))]), P(V('i'))])])
    f_loop1 = FUN('noisyloop', [('n', INT, None)], INT, [FOR('i', L(0), V('n'), [P(B('*', V('i'), L(3)))])])
    add('fun-body-is-for', [P(CALL('firstbig', L(8))), P(CALL('firstbig', L(2))), P(CALL('noisyloop', L(3)))], funs=[f_loop, f_loop1])
    f_while = FUN('countup', [('n', INT, None)], INT, [{'k': 'while', 'c': B('<', V('n'), L(3), BOOL), 'body': [P(V('n')), A('n', B('+', V('n'), L(1)))]}])
    add('fun-body-is-while', [P(CALL('countup', L(1))), P(CALL('countup', L(7)))], funs=[f_while])
    f_arm_loop = FUN('armloop', [('n', INT, None)], INT, [MATCH(V('n'), [(('lit', INT, 0), [VAL(B('-', L(0), L(1)))]),
                                                                        (('wild',), [FOR('i', L(1), V('n'), [IF(B('=', V('i'), V('n'), BOOL), [RET(B('*', V('i'), L(100)))]), P(V('i'))], True)])])])
    add('fun-body-is-match-arm-is-for', [P(CALL('armloop', L(0))), P(CALL('armloop', L(3)))], funs=[f_arm_loop])
    f_if_loop = FUN('ifloop', [('n', INT, None)], INT, [IF(B('>', V('n'), L(1), BOOL), [FOR('i', L(0), V('n'), [P(V('i'))])], [VAL(L(7))])])
    add('fun-body-is-if-branch-is-for', [P(CALL('ifloop', L(3))), P(CALL('ifloop', L(0)))], funs=[f_if_loop])
    f_loop_if = FUN('looptailif', [('n', INT, None)], INT, [FOR('i', L(0), V('n'), [IF(B('>', V('i'), L(0), BOOL), [P(L('pos'))], [P(L('zero'))])]), VAL(V('n'))])
    add('loop-body-is-if-else', [P(CALL('looptailif', L(2)))], funs=[f_loop_if])
    f_loop_match = FUN('looptailmatch', [('n', INT, None)], INT, [FOR('i', L(0), V('n'), [MATCH(V('i'), [(('lit', INT, 0), [P(L('zero'))]), (('bind', 'm'), [P(B('*', V('m'), L(5)))])])]), VAL(V('n'))])
    add('loop-body-is-match', [P(CALL('looptailmatch', L(3)))], funs=[f_loop_match])
    f_handle_tail = FUN('handletail', [('k', INT, None)], INT, [h(CALL('risky', V('k')), [('E1', 'err', [VAL(B('-', L(0), L(1)))]), ('E3', 'err', [VAL(B('-', L(0), L(3)))])], bind='r'), VAL(V('r'))])
    add('fun-handle-then-value', [P(CALL('handletail', L(3))), P(CALL('handletail', L(1))), P(CALL('handletail', L(-4)))], classes=EX['classes'], funs=EX['funs'] + [f_handle_tail])
    add('uncaught-user-exception', [P(L('before')), P(CALL('risky', L(3)))], top_only=True, **EX)
    add('uncaught-subclass', [P(L('before')), P(CALL('outerf', L(9)))], top_only=True, **EX)
    add('handle-other-propagates', [P(L('before')), h(CALL('risky', L(-1)), [('E1', 'err', [P(L('wrong arm'))])]), P(L('unreachable'))], top_only=True, **EX)
    add('zero-division', [D('z', L(0)), P(L('before')), P(B('//', L(5), V('z')))], top_only=True)
    add('zero-division-mod', [D('z', L(0)), P(B('mod', L(5), V('z')))], top_only=True)
    add('float-zero-division', [D('z', L(0.0)), P(B('/', L(5.0), V('z', FLOAT), FLOAT))], top_only=True)
    add('sqrt-negative', [D('m', B('-', L(0.0), L(4.0), FLOAT), FLOAT), D('r', {'k': 'sqrt', 'e': V('m', FLOAT), 't': FLOAT}, FLOAT), P(V('r', FLOAT))], top_only=True)
    add('index-error', [D('xs', {'k': 'lst', 'es': [L(1)], 't': 'List[Int]'}, 'List[Int]'), P({'k': 'idx', 'o': V('xs', 'List[Int]'), 'i': L(3), 't': INT})], top_only=True)
    # nullable
    for init, nm in ((None, 'none'), (0, 'zero'), (7, 'seven')):
        e = {'k': 'none', 't': 'None'} if init is None else L(init)
        add(f'question-int-{nm}', [D('n', e, 'Int?', ann=True), D('v', {'k': 'qd', 'e': V('n', 'Int?'), 'd': L(9), 't': INT}, INT, mut=False, ann=True), P(V('v'))])
    for init, nm in ((None, 'none'), ('', 'empty'), ('x', 'x')):
        if init == '':
            continue
        e = {'k': 'none', 't': 'None'} if init is None else L(init)
        add(f'question-str-{nm}', [D('n', e, 'Str?', ann=True), D('v', {'k': 'qd', 'e': V('n', 'Str?'), 'd': L('dflt'), 't': STR}, STR, mut=False, ann=True), P(V('v', STR))])
    for init, nm in ((None, 'none'), (False, 'false'), (True, 'true')):
        e = {'k': 'none', 't': 'None'} if init is None else L(init)
        add(f'question-bool-{nm}', [D('n', e, 'Bool?', ann=True), D('v', {'k': 'qd', 'e': V('n', 'Bool?'), 'd': L(True), 't': BOOL}, BOOL, mut=False, ann=True), P(V('v', BOOL))])
    add('nullable-reassign', [D('n', {'k': 'none', 't': 'None'}, 'Int?', ann=True), A('n', L(4)), D('v', {'k': 'qd', 'e': V('n', 'Int?'), 'd': L(9), 't': INT}, INT, ann=True), P(V('v')),
                              A('n', {'k': 'none', 't': 'None'}), D('w', {'k': 'qd', 'e': V('n', 'Int?'), 'd': L(9), 't': INT}, INT, ann=True), P(V('w'))])
    return out


# ------------------------------------------------------------------ contexts
BOOM = EXC('Boom')
BOOMF = FUN('boomf', [], INT, [RAISE('Boom', 'b'), VAL(L(0))], raises=['Boom'])


def wrap(payload, ctx):
    """Program executing the payload's statements inside the given context."""
    pl = copy.deepcopy(payload)
    classes, funs, st = pl['classes'], pl['funs'], pl['stmts']
    if ctx == 'top':
        main = st
    elif ctx == 'fun':
        funs = funs + [FUN('wrapf', [], INT, st + [VAL(L(0))])]
        main = [P(CALL('wrapf'))]
    elif ctx == 'method':
        classes = classes + [{'name': 'Wrap', 'args': [], 'parents': [], 'members': [
            {'k': 'method', 'name': 'run', 'self': 'self', 'params': [], 'ret': INT, 'raises': [], 'body': st + [VAL(L(0))]}]}]
        main = [D('wrapo', {'k': 'new', 'c': 'Wrap', 'args': [], 't': 'Wrap'}, 'Wrap'), P({'k': 'mcall', 'o': V('wrapo', 'Wrap'), 'm': 'run', 'args': [], 't': INT})]
    elif ctx == 'loop':
        main = [FOR('wz', L(0), L(2), st)]
    elif ctx == 'then':
        main = [IF(B('<', L(1), L(2), BOOL), st, [P(L('not here'))])]
    elif ctx == 'else':
        main = [IF(B('>', L(1), L(2), BOOL), [P(L('not here'))], st)]
    elif ctx == 'arm':
        main = [MATCH(L(1), [(('lit', INT, 0), [P(L('not here'))]), (('lit', INT, 1), st), (('wild',), [P(L('nor here'))])])]
    elif ctx == 'handle-arm':
        classes = classes + [copy.deepcopy(BOOM)]
        funs = funs + [copy.deepcopy(BOOMF)]
        main = [HANDLE(CALL('boomf'), [('Boom', 'werr', st)])]
    elif ctx == 'fun-in-loop-in-if':
        funs = funs + [FUN('wrapf', [('wk', INT, None)], INT, [FOR('wz', L(0), V('wk'), [IF(B('=', V('wz'), L(1), BOOL), st, [P(L('skip'))])]), VAL(L(0))])]
        main = [P(CALL('wrapf', L(2)))]
    else:
        raise KeyError(ctx)
    return {'classes': classes, 'funs': funs, 'main': main}


CONTEXTS = ['top', 'fun', 'method', 'loop', 'then', 'else', 'arm', 'handle-arm', 'fun-in-loop-in-if']
COMPACT_PAYLOADS = ('if', 'match', 'while', 'for-list', 'nested-for', 'range..=+2/skip', 'range..-1/long', 'fun-', 'loop-body', 'handle-', 'raise-through', 'class-method-update', 'class-explicit-init',
                    'aug+=', 'reassign', 'question-int-none', 'uncaught', 'zero-division')
COMPACT_CONTEXTS = ['top', 'fun', 'arm', 'else', 'fun-in-loop-in-if']


def cells():
    """All (cell id, program)."""
    out = []
    for name, pl in payloads().items():
        for ctx in CONTEXTS:
            if pl['top_only'] and ctx != 'top':
                continue
            out.append((f'{name}@{ctx}', wrap(pl, ctx)))
    # the same programs with every single-statement block attached to its header line (`def f() -> Int => for ...`,
    # `_ => print(x)`, `if c then return x`): the parser then builds the statement itself instead of a one-statement block
    for name, pl in payloads().items():
        if not name.startswith(COMPACT_PAYLOADS):
            continue
        for ctx in COMPACT_CONTEXTS:
            if pl['top_only'] and ctx != 'top':
                continue
            prog = wrap(pl, ctx)
            prog['layout'] = 'all'
            out.append((f'{name}@{ctx}/attached', prog))
    return out
