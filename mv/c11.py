"""C11 — the annotate option is semantically inert: it only adds annotations.

Two translations of the same input (annotate on / off) are compared: same verdict; on success the two
modules are equal as Python ASTs once annotations and the typing imports they need are erased; for generated
programs the two modules are also executed and must behave identically."""
import json, os
from . import common, lang, gen, behave, sweeps, pyana
from .common import Partial, Report, Worker, rng, run_shards

PROP = 'C11'

# constructs whose emission consults the flag or the inferred types (text templates; @N@ = cell-unique suffix)
ANNOT_CELLS = {
    'function-declared-none-ending-in-none': 'def fnone(a: Int) -> None =>\n    print(a)\n    None\nfnone(1)\nprint("x")\n',
    'method-declared-none': 'class KN\n    def mnone(self) -> None =>\n        print("m")\n        None\nKN().mnone()\n',
    'class-arguments-and-body-fields': 'class KF(def a: Int, b: Str)\n    def f1: Int := 1\n    def fin f2: Str := "s"\n    def m(self) -> Int => self.a\nprint(KF(1, "s").m())\n',
    'parent-with-arguments-and-body-fields': 'class KP(def a: Int)\nclass KC(x: Int): KP(x)\n    def f1: Int := 1\n    def m(self) -> Int => self.f1\nprint(KC(1).m())\n',
    'class-field-typed-no-value': 'class Acc\n    def balance: Int\n    def owner: Str\n    def __init__(self, o: Str) =>\n        self.owner := o\n        self.balance := 0\ndef a := Acc("x")\nprint(a.balance)\n',
    'class-field-typed-with-value': 'class Acc\n    def balance: Int := 5\n    def fin kind: Str := "k"\ndef a := Acc()\nprint(a.balance)\n',
    'handle-def-annotated': 'class E1(msg: Str): Exception(msg)\ndef f(k: Int) -> Int raise [E1] =>\n    if k > 1 then\n        raise E1("m")\n    k\ndef a: Int := f(5) handle\n    err: E1 => 0 - 1\nprint(a)\n',
    'handle-def-annotated-arm-statement': ('class E1(msg: Str): Exception(msg)\ndef f(k: Int) -> Int raise [E1] =>\n    if k > 1 then\n        raise E1("m")\n    k\n'
                                           'def fails := 0\ndef a: Int := f(5) handle\n    err: E1 =>\n        fails := fails + 1\n        7\nprint(a)\nprint(fails)\n'),
    'handle-def-inferred': 'class E1(msg: Str): Exception(msg)\ndef f(k: Int) -> Int raise [E1] =>\n    if k > 1 then\n        raise E1("m")\n    k\ndef a := f(5) handle\n    err: E1 => 0 - 1\nprint(a)\n',
    'handle-def-in-function': ('class E1(msg: Str): Exception(msg)\ndef f(k: Int) -> Int raise [E1] =>\n    if k > 1 then\n        raise E1("m")\n    k\n'
                               'def g(k: Int) -> Int =>\n    def a: Int := f(k) handle\n        err: E1 => 0 - 1\n    a + 1\nprint(g(5))\nprint(g(1))\n'),
    'nullable': 'def n: Int? := None\ndef m: Int := n ? 4\nprint(m)\nn := 2\ndef k: Int := n ? 4\nprint(k)\n',
    'nullable-param-return': 'def f(a: Int?) -> Int? =>\n    def r: Int? := a\n    r\ndef v: Int? := f(None)\nprint("end")\n',
    'tuple-typed': 'def t: (Int, Str) := (1, "s")\ndef (a, b) := t\nprint(a)\nprint(b)\n',
    'union-if': 'def u := if 1 < 2 then 1 else "s"\nprint("end")\n',
    'union-declared': 'def w: {Int, Str} := 1\nprint("end")\n',
    'function-typed-param': 'def ap(h: (Int) -> Int, v: Int) -> Int => h(v)\nprint(ap(\\x: Int => x * 3, 4))\n',
    'lambda-def': 'def lam := \\x: Int, y: Int => x + y\nprint(lam(1, 2))\n',
    'defaults': 'def f(a: Int, b: Str := "d", c: Float := 1.5) -> Str => "{a}{b}{c}"\nprint(f(1))\nprint(f(1, "z", 2.5))\n',
    'no-return-type': 'def p(a: Int) => print(a)\np(3)\n',
    'implicit-return-nested': 'def pick(k: Int) -> Str =>\n    if k < 1 then\n        "neg"\n    else\n        match k\n            1 => "one"\n            _ => "many"\nprint(pick(0))\nprint(pick(1))\nprint(pick(5))\n',
    'type-alias': 'type Km: Int when self >= 0\nprint("end")\n',
    'abstract-type': 'type Shape\n    def area(self) -> Int\nclass Sq(def s: Int): Shape\n    def area(self) -> Int => self.s * self.s\ndef q := Sq(3)\nprint(q.area())\n',
    'any-param': 'def anyf(a: Any) -> Int => 1\nprint(anyf("s"))\n',
    'list-set-types': 'def xs: List[Int] := [1, 2]\ndef ys: Set[Str] := {"a"}\nfor x in xs do print(x)\n',
    'for-loop-typed': 'for i in 0 .. 3 do\n    def sq: Int := i * i\n    print(sq)\n',
    'sqrt': 'def r: Float := sqrt 16\nprint(r)\n',
    'class-args-and-parent': 'class Base(def bx: Int)\n    def get(self) -> Int => self.bx\nclass Child(bx: Int, def cy: Int): Base(bx)\n    def more(self) -> Int => self.cy + self.get()\ndef c := Child(1, 2)\nprint(c.more())\n',
    'method-with-own-class-param': 'class V(def x: Int)\n    def same(self, other: Int) -> Bool => self.x = other\ndef a := V(1)\nprint(a.same(1))\n',
    'operator-own-class': 'class V(def x: Int)\n    def +(self, other: V) -> V => V(self.x + other.x)\ndef a := V(1) + V(2)\nprint(a.x)\n',
    'docstring': 'class D\n    """doc of D"""\n    def v: Int := 1\ndef d := D()\nprint(d.v)\n',
    'while-typed': 'def k: Int := 0\nwhile k < 2 do\n    print(k)\n    k := k + 1\n',
    'match-typed': 'def a: Int := 2\nmatch a\n    1 => print("one")\n    n => print(n)\n',
    'raise-declared': 'class E1(msg: Str): Exception(msg)\ndef f(k: Int) -> Int raise [E1] =>\n    raise E1("x")\n    k\nf(1) handle\n    err: E1 => print("caught")\n',
}


def judge_pair(w, src, part, origin, prog=None, execute=False, files=None):
    files = files or [('in.mamba', src)]
    ra = w.pipe(files, annotate=True)
    rb = w.pipe(files, annotate=False)
    ka, kb = ra.get('k'), rb.get('k')
    if ka not in ('ok', 'err') or kb not in ('ok', 'err'):
        part.inconc(f'pipeline-{ka}/{kb}')
        return
    wit = {'kind': 'pair', 'origin': origin, 'files': files}
    if ka != kb:
        # a verdict that is unstable under ONE flag is nondeterminism and belongs to C12 (every call draws fresh hash seeds): re-run five times
        again = [(w.pipe(files, annotate=True).get('k'), w.pipe(files, annotate=False).get('k')) for _ in range(5)]
        if any(a != ka or b != kb for a, b in again):
            part.inconc('nondeterministic-baseline'); return
        part.violation(f'verdict-differs:on={ka}:off={kb}', dict(wit, diagnostic=((ra if ka == 'err' else rb).get('errs') or [''])[0][:400]))
        return
    part.count('verdict-' + ka)
    if ka == 'err':
        part.held(('verdict', 'err', origin.split(':')[0]))
        return
    for i, (pa, pb) in enumerate(zip(ra['py'], rb['py'])):
        try:
            ea, eb = pyana.erase(pa), pyana.erase(pb)
        except SyntaxError:
            part.count('output-not-python (C02 owns it)')
            return
        if ea != eb:
            ra2 = w.pipe(files, annotate=True)
            if ra2.get('k') == 'ok' and ra2['py'][i] != pa:
                part.inconc('nondeterministic-baseline'); return
            part.violation(f'erased-ast-differs:{pyana.first_difference(pa, pb)}', dict(wit, file=files[i][0], on=pa[:3000], off=pb[:3000]))
            return
    part.count('erasure-equal')
    if execute and len(files) == 1:
        oa = behave.observe(ra['py'][0]); ob = behave.observe(rb['py'][0])
        if oa[2]['status'] != 'ok' or ob[2]['status'] != 'ok':
            part.inconc('python-' + oa[2]['status']); return
        part.count('executed-both')
        if (oa[0], oa[1]) != (ob[0], ob[1]):
            part.violation(f"behaviour-differs:on={oa[1] or 'ok'}:off={ob[1] or 'ok'}:{cause_tag(ra['py'][0], oa)}", dict(wit, on={'lines': oa[0][:10], 'exc': oa[1], 'detail': oa[2]['detail']},
                                                                                       off={'lines': ob[0][:10], 'exc': ob[1], 'detail': ob[2]['detail']}, py_on=ra['py'][0][:2500]))
            return
    part.held((origin.split(':')[0], ka, len(ra['py'][0]) // 300))
    if part.evaluations % 70 == 1:
        part.sample({'origin': origin, 'source_head': files[0][1][:300], 'annotate_on_head': ra['py'][0][:300], 'annotate_off_head': rb['py'][0][:300]})


def cause_tag(py_on, obs):
    """Small detector so that the one known cause (an annotation that names a class not yet bound when the
    `def` is executed: the enclosing class itself, or a class defined further down) has its own signature."""
    import ast
    if obs[1] != 'NameError':
        return 'no-tag'
    try:
        tree = ast.parse(py_on)
    except SyntaxError:
        return 'no-tag'
    order = [st.name for st in tree.body if isinstance(st, ast.ClassDef)]
    for ci, st in enumerate(tree.body):
        if not isinstance(st, (ast.ClassDef, ast.FunctionDef)):
            continue
        later = set(order[order.index(st.name):]) if isinstance(st, ast.ClassDef) else {c.name for c in tree.body[ci + 1:] if isinstance(c, ast.ClassDef)}
        funs = [m for m in st.body if isinstance(m, ast.FunctionDef)] if isinstance(st, ast.ClassDef) else [st]
        for f in funs:
            anns = [a.annotation for a in f.args.args if a.annotation is not None] + ([f.returns] if f.returns is not None else [])
            for an in anns:
                for nm in ast.walk(an):
                    if isinstance(nm, ast.Name) and nm.id in later and nm.id in obs[2]['detail']:
                        return 'annotation-names-class-not-yet-bound'
    return 'no-tag'


def shard(i, n, nrandom):
    w = Worker(watchdog=60); part = Partial()
    k = 0
    for name, src in ANNOT_CELLS.items():
        k += 1
        if k % n == i:
            judge_pair(w, src, part, 'annot-cell:' + name, execute=True)
            part.count('annot-cells')
    for cell, prog in sweeps.cells():
        k += 1
        if k % n == i:
            judge_pair(w, lang.to_mamba(prog), part, 'sweep:' + cell, execute=True)
            part.count('sweep-cells')
    # constructs that need a support import, below each form of user import (shared with C16): what annotation adds must not disturb them
    from . import c16
    for ui in c16.USER_IMPORTS:
        for sn, snippet in c16.SNIPPETS.items():
            k += 1
            if k % n == i and (k // n) % 3 == common.SEED % 3:
                judge_pair(w, ui + '\n' + snippet + '\n', part, f'user-import:{ui}:{sn}', execute=False)
                part.count('user-import-cells')
    for j in range(nrandom):
        k += 1
        if k % n == i:
            r = rng(PROP, 'random', j)
            prog, _ = gen.generate(r, {'size': 2} if j % 8 == 0 else None)
            if j % 3 == 1:
                prog['layout'] = j
            judge_pair(w, lang.to_mamba(prog), part, f'random:{j}', execute=True)
            part.count('random-programs')
    for rel, src in common.repo_samples('all'):
        k += 1
        if k % n == i:
            judge_pair(w, src, part, 'sample:' + rel, files=[(rel, src)], execute=rel.startswith('valid') and 'input' not in src)
            part.count('samples')
    # verdict agreement on a slice of hostile inputs
    from . import inputs
    corpus = [(rel, s) for rel, s in common.repo_samples('all') if len(s) < 2500]
    for j in range(nrandom * 3):
        k += 1
        if k % n == i:
            r = rng(PROP, 'fuzz', j)
            rel, s = r.choice(corpus)
            judge_pair(w, inputs.mutate(s, r), part, 'mutated:' + rel)
            part.count('mutated-inputs')
    w.close()
    return part.dump()


def replay_entries(rep):
    rep.known_live = {}
    w = Worker(watchdog=60)
    entries = [(sig, wit) for sig, (wit, _) in rep.known.known.items()] + [(None, x[2]) for x in rep.known.fixed if x[2]]
    for sig, wit in entries:
        obj = json.load(open(os.path.join(common.ROOT, wit)))
        part = Partial()
        src = obj['mamba'] if 'mamba' in obj else obj['files'][0][1]
        judge_pair(w, src, part, 'finding:' + wit, execute=True)
        if sig is not None:
            rep.known_live[sig] = sig in part.violations
        else:
            rep.count('fixed-regressions-replayed')
        for s, (wt, c) in part.violations.items():
            rep.violation(s, wt)
    w.close()


def selftest():
    a = 'from typing import Optional\nx: int = 1\ny: Optional[int] = None\nz: int\ndef f(a: int, b: str = "s") -> int:\n    return a\n'
    b = 'x = 1\ny = None\ndef f(a, b = "s"):\n    return a\n'
    assert pyana.erase(a) == pyana.erase(b)
    assert pyana.erase(a) != pyana.erase(b.replace('y = None\n', ''))       # a dropped statement must be seen
    assert pyana.erase('z: int\n') != pyana.erase('z = None\n')               # bare annotation is not an assignment


def main(tier):
    common.build()
    selftest()
    rep = Report(PROP, tier, 'translation_validation')
    rep.rule = ('one evaluation = one input transpiled twice (annotate on / off): same verdict; on success erase(ast(on)) == erase(ast(off)); generated programs and valid samples are also '
                'executed under both outputs; distinct = distinct (origin kind, verdict, output-size bucket); non-trivial = both translations returned')
    rep.assumptions = ['erasure: AnnAssign with value -> Assign, bare `x: T` removed, parameter/return annotations cleared, typing imports reduced to the names still referenced',
                       'a baseline that is not reproducible (hash-order) is left to C12']
    replay_entries(rep)
    nrandom = 200 if tier == 'quick' else 4000
    for d in run_shards(shard, (nrandom,)):
        rep.merge(d)
    floors = [('>= 1000 accepted inputs compared after erasure', rep.cov.get('erasure-equal', 0) >= 1000),
              ('>= 800 programs executed under both outputs', rep.cov.get('executed-both', 0) >= 800),
              ('rejected inputs compared (verdict agreement) >= 300', rep.cov.get('verdict-err', 0) >= 300),
              (f'all {len(ANNOT_CELLS)} annotation cells evaluated', rep.cov.get('annot-cells', 0) == len(ANNOT_CELLS))]
    return rep.finish(floors, extra_cov={'programs': rep.cov.get('erasure-equal', 0), 'disagreements_checked': sum(rep.viol_counts.values()) + sum(rep.known_hits.values())})


def replay(path):
    common.build()
    obj = json.load(open(path))['witness']
    w = Worker(watchdog=60); part = Partial()
    judge_pair(w, obj['files'][0][1], part, 'replay', execute=True, files=[tuple(f) for f in obj['files']])
    w.close()
    if part.violations:
        print(f'VIOLATION property={PROP} replay={path}')
        return 1
    print('replay: held')
    return 0
