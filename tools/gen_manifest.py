#!/usr/bin/env python3
"""Writes /verif/MANIFEST.json from the table below (single source of truth for the interface)."""
import json, os, subprocess

ROOT = os.path.dirname(os.path.dirname(os.path.abspath(__file__)))

ALL = ['C%02d' % i for i in range(1, 21)]

# property -> (category, technique, level text, level note, design ref)
CHECKS = {
    'C18': ('exploration',
            'runtime monitor on the real lexer token stream (hook): slice/end/order/indent/relex oracle; exhaustive token pairs + fuzz; thorough adds a Miri (undefined-behaviour interpreter) slice over the lexer and the Core printer',
            'Every adjacent pair of the token vocabulary x 4 separators is lexed by the real lexer and every token span is '
            'compared with the source text (exhaustive, both tiers); plus repository samples (LF and CRLF) and a seeded stream of '
            'mutated samples, string-heavy inputs, token soup and raw text. Held = no span/indent/relex violation on any accepted input.',
            'Trusts the hook to report the lexer\'s own positions (it copies Lex.pos); columns counted in characters; '
            'synthetic tokens (NL/Indent/Dedent/Eof) are only required to lie inside the text.',
            'DESIGN.md section 4, C18'),
    'C10': ('exploration',
            'runtime monitor on the real printer: Core trees enumerated exhaustively (3 levels, ~98k trees) and randomly (depth 4-7), printed by Display for Core, parsed back by CPython ast and compared with the tree each denotes; end-to-end typed Mamba expressions through the whole pipeline',
            'Exhaustive small scope: every tree of up to two operator levels above the leaves over 23 binary, 4 unary operators, sqrt, isinstance, ternary, lambda, call, index, attribute and E-notation is printed by the real code and re-parsed by CPython; random deeper trees; and Mamba source expressions (fully parenthesised and minimally parenthesised per the Mamba grammar) transpiled and compared as Python ASTs.',
            'Trusts CPython ast.parse as the definition of grouping; and/or flattening of left-nested same-operator BoolOps normalised on both sides; Appendix B of DESIGN.md as reading of the Mamba grammar for the minimal-parentheses spelling.',
            'DESIGN.md section 4, C10'),
    'C20': ('exploration',
            'runtime monitor on the real Name::is_superset_of / union / == / Hash against a real Context: complete pair matrix over a ~360-type universe, all triples via the matrix, union laws, repetition with fresh hash seeds, end-to-end `def x: U := e` cross-check',
            'Exhaustive small scope: the order axioms (reflexive, transitive, Any top, nullable rules, class ancestry, unrelated generic instantiations, union laws, insertion-order independence) are evaluated on the real public API for every pair and every triple of the universe; the matrices are recomputed several times with fresh Contexts and hash seeds; 600+ (T, U) pairs are cross-checked through the whole pipeline.',
            'The universe is finite and built through public constructors; function types are judged for reflexivity only, as the property states.',
            'DESIGN.md section 4, C20'),
    'C03': ('exploration',
            'fuzzing with crash / panic / step-budget / empty-diagnostics oracles on the real pipeline in worker processes (overflow-checked build), plain-release replay, gdb-symbolised crash signatures, valgrind memcheck slice',
            'Hostile inputs (token-level mutations of all repository samples, token soup, raw UTF-8, 682 adversarial shapes (incl. a restricted-position x expression/type form matrix aimed at the expect/panic sites of the generator), 2-5 file projects) are run through the real mamba_to_python on an 8 MiB stack under catch_unwind with a logical step budget armed through the counter hook; a worker death, panic, exceeded budget or empty diagnostics list is a violation; every 50th input is replayed on the plain release build and verdict differences are reported; thorough adds a valgrind memcheck slice.',
            'Bounds: <= 4 KiB and <= 150 lines per file, <= 5 files; time bound = 4000 + 40*(tokens+1)^2 counted steps at the instrumented loop heads / recursive entries (a loop in uninstrumented code would surface as a watchdog inconclusive, not as a verdict).',
            'DESIGN.md section 4, C03'),
    'C01': ('translation_validation',
            'history-vs-model runtime monitor: programs transpiled by the real pipeline, emitted Python executed by CPython, printed lines and uncaught exception class compared with a reference interpreter; systematic construct x context sweep + seeded random programs, both annotate flags',
            'Translation validation by execution: 1590 sweep cells (161 construct payloads x up to 9 contexts, 205 cells repeated with every one-statement block attached to its header line; 136 value-position text programs x both flags run for five arguments against a written-down meaning; contexts: top level, function, method, loop, then, else, match arm, handle arm, function-in-loop-in-if) and seeded random typed programs are transpiled with annotate on and off; each emitted module is run and its behaviour compared with the reference semantics; every disagreement is re-run, shrunk structurally and given a construct-tag signature.',
            'Trusts CPython 3.11 for the behaviour of Python and the reference interpreter in mv/lang.py as the reading of the documented semantics (small, canary-tested); rejected programs are not judged here (C05 owns over-rejection).',
            'DESIGN.md section 4, C01'),
    'C05': ('exploration',
            'verdict-comparison runtime monitor: systematic single-fault sweep of small programs through the real pipeline; accept/reject compared with the reference typing discipline; accepted violating cells are executed to attach the run-time harm',
            '11083 cells (incl. a three-level hierarchy, a diamond, and scope-reuse variants in which the name of the filler variable is defined again with another type in a scope that has ended): use-site (call, nested call argument, method call, constructor, annotated local, reassignment, field assignment) x filler of each type in several syntactic forms x 9 contexts; arity cells for functions, methods (also inherited) and constructors incl. defaults; return cells (implicit/explicit, through if/else/match/loop, with and without preceding statements, in functions and methods). Demanded verdict from Int <: Float <: Complex, class inheritance and Any.',
            'The reference discipline is the one the property states; every cell is a small program that differs from an accepted program by one use; a mismatch that occurs in every context of its group is reported as one context-independent signature. Cells are deterministic (seed independent) and all are evaluated in both tiers.',
            'DESIGN.md section 4, C05'),
    'C06': ('exploration',
            'verdict-comparison runtime monitor: systematic single-fault sweep of small programs through the real pipeline; accept/reject compared with the reference typing discipline; accepted violating cells are executed to attach the run-time harm',
            '12342 cells (incl. scope-reuse sources, conditional expressions with a nullable branch, returns from loop bodies): T in (Int, Float, Str, Bool, user class, tuple, List[Int]) x consuming position (initialiser, reassignment, field, argument, method argument, constructor argument, return, operand, receiver) x source (None, T? variable holding None / a value, T? field, T?-returning call, T? parameter, x ? d, plain T) x 9 contexts, both directions.',
            'The reference discipline is the one the property states; every cell is a small program that differs from an accepted program by one use; a mismatch that occurs in every context of its group is reported as one context-independent signature. Cells are deterministic (seed independent) and all are evaluated in both tiers.',
            'DESIGN.md section 4, C06'),
    'C07': ('exploration',
            'verdict-comparison runtime monitor: systematic single-fault sweep of small programs through the real pipeline; accept/reject compared with the reference typing discipline; accepted violating cells are executed to attach the run-time harm',
            '2670 cells: definition form (plain, annotated, tuple component, nested / annotated tuple target, class argument, class-body field, parameter) x fin/mutable x assignment operator (:= += -= *= ^= <<= >>=) x nesting of the assignment x context; assignments through self / fin self / fin receiver variables; never-defined targets; shadowing re-definitions that flip mutability in both directions.',
            'The reference discipline is the one the property states; every cell is a small program that differs from an accepted program by one use; a mismatch that occurs in every context of its group is reported as one context-independent signature. Cells are deterministic (seed independent) and all are evaluated in both tiers.',
            'DESIGN.md section 4, C07'),
    'C08': ('exploration',
            'verdict-comparison runtime monitor: systematic single-fault sweep of small programs through the real pipeline; accept/reject compared with the reference typing discipline; accepted violating cells are executed to attach the run-time harm',
            '11016 static cells: raised class (hierarchy of depth 3) x raise source (raise statement, function call, method call, callee declaring two exceptions) x position (plain, initialiser, if, loop, match arm, arm of an outer handle, arm of its own handle) x declared set x handled set (all subsets of size <= 2); scope cells (protection ends after a handle) and declare cells (only Exception subclasses). Dynamic half: 75 handle/raise programs executed under both flags and compared arm by arm with the reference interpreter.',
            'The reference discipline is the one the property states; every cell is a small program that differs from an accepted program by one use; a mismatch that occurs in every context of its group is reported as one context-independent signature. Cells are deterministic (seed independent) and all are evaluated in both tiers.',
            'DESIGN.md section 4, C08'),
    'C09': ('exploration',
            'verdict-comparison runtime monitor: systematic single-fault sweep of small programs through the real pipeline; accept/reject compared with the reference typing discipline; accepted violating cells are executed to attach the run-time harm',
            '1546 cells: placement of the definition (never, before, later, one branch (taken and not taken at run time), both branches, one/all match arms, loop body (also zero iterations), comprehension variables (list/set/dict; statement, definition, match subject, argument), constructors incl. a child that re-declares a parent field, loop / match / comprehension variable outside its scope, handle arm, shadowing, nesting depth 1-3, tuple definitions) x use form (print, initialiser, argument, condition, interpolation) x 7 contexts; forward use of top-level functions/classes; field reads and completeness in explicit constructors (through if/match).',
            'The reference discipline is the one the property states; every cell is a small program that differs from an accepted program by one use; a mismatch that occurs in every context of its group is reported as one context-independent signature. Cells are deterministic (seed independent) and all are evaluated in both tiers.',
            'DESIGN.md section 4, C09'),
    'C12': ('exploration',
            'runtime monitor over repetition: identical arguments run K times sequentially in one process, on T concurrent threads, after a conflicting earlier workload in the same process (history test against a brand-new process) and in P further processes; verdicts and emitted bytes compared',
            'Schedules here are hash seeds and process histories: every HashSet/HashMap instance inside mamba gets a fresh seed per run, so repetition explores iteration orders; the history test runs a program after a twin with the same class names but different relations (what a process-wide cache keyed by name would confuse) and compares with a process that never saw the twin. Half of the parent sets define the same member with different signatures (fits one parent only), helper-lambda producing `e ? d` forms are included. Workload biased to hash-ordered internals: interleaved class members, several parents, unions of 2-4 types incl. same-named generics, multi-member raise lists, multi-file projects, generated programs, repository samples.',
            'Probabilistic in the number of repetitions (quick: 8 sequential + 8 threads + 2-3 processes per flag; thorough: 40 + 16 + 3); differences in diagnostic text are reported but are not violations.',
            'DESIGN.md section 4, C12'),
    'C13': ('fault_enumeration',
            'runtime monitor on the real binary and library: strace write-set + directory snapshots, all permutations of the file list, unrelated-file addition, re-runs into populated output directories (same project, shortened file, other annotate flag, changed source with an old modification time), one run per (file, fault kind)',
            'Generated projects (1-5 files in nested directories, cross-file classes/functions/exceptions in both dependency directions and cycles). Per accepted project: every permutation of the file list through mamba_to_python (outputs compared as Python ASTs), the project plus an unrelated file, the real binary under strace -f -e trace=%file in three CLI layouts (write-set = exactly the mirrored .py files, nothing outside the output directory, nothing removed, content equal to the library output), a second run into the populated directory, a run after one file got shorter (must equal a fresh transpilation), and for each file and each fault kind (lexical, syntactic, type) one run with that single file faulty, into the populated and into a fresh directory: exit status non-zero, no Python written, previous output untouched, every diagnostic names exactly the faulty file.',
            'strace sees all file-system effects; injected faults are file-local and verified to be faults (the faulty file alone is rejected at the parse stage); imports only for flat module names (dotted paths do not parse on this tree).',
            'DESIGN.md section 4, C13'),
    'C11': ('translation_validation',
            'two-translation comparison at run time: every input transpiled with annotate on and off by the real pipeline; verdicts compared; outputs compared as Python ASTs after annotation erasure; generated programs and valid samples executed under both outputs',
            'Translation validation of one translation against the other: 29 annotation-sensitive construct cells, the 1590-cell construct x context sweep, construct x user-import cells (incl. aliased imports from typing / abc), seeded random programs, all 277 repository samples and mutated samples. Same verdict required; erase(ast(on)) == erase(ast(off)) where erasure turns annotated assignments into assignments, drops bare annotations, clears parameter/return annotations and reduces typing imports to the names still used; executed behaviour (printed lines, exception class) of both outputs must be equal.',
            'CPython ast as the notion of "same program"; an irreproducible baseline is left to C12.',
            'DESIGN.md section 4, C11'),
    'C16': ('exploration',
            'runtime monitor on emitted modules: symtable/ast analysis of the exact returned text (free global names, duplicate generator imports, import placement, user imports reproduced) plus execution (NameError/ImportError at import time)',
            'Every import-needing construct (sqrt; T? in variable, parameter, return, field, nested generic; unions via if/match/declared incl. all-nullable ones; tuple types; function-typed parameters; Any; type alias; abstract types) alone x every user-import form (plain, aliased, from, from-as, multiple; above the code and AFTER it), support names that occur only inside a nullable / generic / union type, pairs in both orders and random combinations of 2-5 constructs, generated programs, the construct sweep and all valid repository samples, with annotate on and off.',
            'Support names: math; Optional/Union/Tuple/Callable/Any/NewType from typing; ABC/abstractmethod from abc. Names bound by the user\'s own imports are allowed free names.',
            'DESIGN.md section 4, C16'),
    'C14': ('exploration',
            'metamorphic runtime monitor: program and trivia variant both transpiled by the real pipeline; verdicts and emitted bytes compared (Python AST and executed behaviour for redundant parentheses)',
            'For sweep cells, valid repository samples and small generated programs: every placement, one at a time, of a trailing comment, trailing spaces, a whole-line comment indented like the next / like the previous statement, 1-3 blank lines, whitespace-only lines of three indentations before every line (hence also before else, between match/handle head and first arm, between arms, before dedents), final-newline forms, comments at begin/end of file, LF->CRLF; and every sub-expression once in redundant parentheses.',
            'No trivia is inserted inside string literals (programs with multi-line literals get the file-level trivia only, and their LF/CRLF copies go through the real binary whose writer normalises line endings); comments are not transpiled, so bytes must be identical; a non-reproducible baseline is left to C12.',
            'DESIGN.md section 4, C14'),
    'C17': ('exploration',
            'runtime monitor on executed modules: the emitted module is run and introspected (inspect.signature of every function, class, method; constructor signature as Python sees it incl. inherited; __bases__ order) against the table implied by the Mamba definitions (names, order, default VALUES, variadic markers); a generated Python client then calls every function positionally, with defaults omitted, by keyword and by keyword in reverse order',
            'Random class/function shape family (0-4 class arguments with/without def, 0-3 parents with identifier/string arguments in any position, abstract parent, explicit constructor with default, interleaved fields/methods/operators, parameter defaults of scalar, tuple, list-of-tuple and nullable type, vararg), generated programs and sweep cells, both flags; shape programs judged 2-3 times so that hash-order dependent member loss shows.',
            'A class without class arguments and parent arguments needs no __init__ of its own: the constructor signature Python reports is what is compared.',
            'DESIGN.md section 4, C17'),
    'C02': ('exploration',
            'runtime monitor with CPython compile() as oracle on the exact text the real pipeline returned: generator workloads, repository samples, accepted survivors of token-level mutation / token soup / type-expression fuzz / adversarial shapes, a catalogue of one-line and nested statement/expression shapes, 136 value-position programs (value-producing compound construct x value-consuming position) and with-statement shapes; both flags',
            'Every accepted input of the streams has each returned module compiled by CPython; a refusal is classified from the emitted text (detectors for the listed literal/statement shapes, otherwise CPython message + shape of the offending line) so that a printer regression gets a signature of its own; the first witness of each signature is shrunk on the Mamba side.',
            'CPython 3.11 compile() defines valid Python 3. Most fuzz inputs are rejected by the pipeline; the floor demands >= 2% accepted.',
            'DESIGN.md section 4, C02'),
    'C04': ('exploration',
            'runtime monitor with CPython as oracle: whatever the real pipeline accepts is executed and must not end with TypeError / AttributeError / NameError / UnboundLocalError; workload aimed by the typing sweeps',
            'Operator x operand-type sweep (14 binary, 4 unary and 7 augmented-assignment operators x 8 operand types, as literals and as declared variables, at top level, inside a function and on a field through self), misuse cells (member of another class, renamed function / variable / field / method / class, non-callable, non-indexable ...), every violating single-point edit of the C05/C06/C07/C09 sweeps (wrong argument / initialiser / receiver / return value, dropped or added argument, nullable source, undefined use) placed on an executed path with callee bodies that use their arguments, plus well-typed sweep and random programs.',
            'Every edit stands on an executed path; exceptions outside the four classes are fine. No reference model decides anything: CPython does.',
            'DESIGN.md section 4, C04'),
    'C15': ('exploration',
            'metamorphic runtime monitor: program and renamed program both transpiled by the real pipeline; verdicts compared; ast(out(rho P)) compared with rho(ast(out(P))) using a renaming transformer on the Python AST; both outputs executed',
            'A template program with every slot kind (variable, parameter, function, class, exception class, class argument, body field, method, method parameter, loop variable, match binder, handle variable, tuple components; with sqrt, Optional and `?` on a field so that generator-special names matter) x the adversarial pool one name at a time (names the generator emits or special-cases: size, init, super, math, typing, abc, Optional, Union, NewType, ABC, abstractmethod, int, str, list, isinstance, value, dunder-like and underscore forms, 1- and 40-letter names ...), plus sweep and generated programs with sampled single renamings and full renamings into ordinary names.',
            'Never renamed from or to: self, __init__, operator names, names defined in the default context and keywords; a pool name counts as fresh only if the program does not already use it.',
            'DESIGN.md section 4, C15'),
    'C19': ('fault_enumeration',
            'runtime monitor on rendered diagnostics: a parser for the renderer\'s own format applied to the strings mamba_to_python returns, cross-checked with the rejecting stage obtained through the public stage functions; fault enumeration per line',
            'For sweep cells, generated programs and nine text bases with doc-strings / multi-line strings above the code, each code line outside strings gets one lexical and one syntactic fault, three of seven ill-typed statements (each on a line of its own; each reported by another part of the checker), an undefined parent where it is a class header; two-file projects in which a three-line file uses a declaration made on line 9-10 of the other file; and the last statement is truncated under three final-newline forms; the same per file of generated multi-file projects; plus the rejected inputs of the hostile streams (mutated samples, class-hierarchy and type-expression fuzz, soup, raw text), adversarial shapes and the repository\'s invalid samples. Checked: at least one diagnostic; header names a given file (the faulty one); header position inside that file\'s text; every quoted line verbatim; the fault line is mentioned.',
            'Line N as the renderer defines it (Rust str::lines). Localisation is only judged for faults that have a line of their own, and for lexical/syntactic faults only when the parse stage rejects.',
            'DESIGN.md section 4, C19'),
}

NOT_YET = 'monitor not built yet in this revision (construction order: DESIGN.md section 9); not claimed rather than claimed weakly'


def hook_commits():
    try:
        out = subprocess.run(['git', '-C', '/repo', 'log', '--format=%h %s'], stdout=subprocess.PIPE, text=True).stdout
        return [l.split()[0] for l in out.splitlines() if l.split(' ', 1)[1].startswith('verif:')][::-1]
    except Exception:
        return []


def main():
    checks = []
    for pid in ALL:
        if pid not in CHECKS:
            continue
        cat, tech, text, note, ref = CHECKS[pid]
        checks.append({
            'property_id': pid,
            'quick_cmd': f'./check {pid} --tier quick',
            'thorough_cmd': f'./check {pid} --tier thorough',
            'evidence_file': f'/verif/evidence/{pid}.json',
            'replay_cmd_template': f'./check {pid} --replay {{path}}',
            'engine': 'mvh+mv',
            'level_claimed': {'category': cat, 'text': text, 'design_ref': ref},
            'level_note': note,
            'technique': tech,
        })
    m = {
        'version': 1,
        'setup_cmd': 'cd /verif && python3 tools/setup.py',
        'hooks': {
            'guard': 'cargo feature "verif" (cfg(feature = "verif")) of the mamba crate; off by default',
            'enable': 'the harness crate /verif/harness depends on mamba with features = ["verif"]; every check runs `cargo build --release --offline` there (CARGO_TARGET_DIR=/verif/target) before it observes anything',
            'baseline_off_cmd': 'python3 /verif/tools/baseline_off.py',
            'source_commits': hook_commits(),
            'add_only': True,
        },
        'engines': [
            {'name': 'mvh+mv', 'path': '/verif/harness (Rust worker running the real mamba code) + /verif/mv (Python monitors, workload generators, oracles)',
             'serves_properties': sorted(CHECKS),
             'kind_free_text': 'runtime monitoring: hostile/generated workloads executed by the real code in worker processes; oracles over observed outputs, token streams, emitted Python run by CPython, file-system effects; overflow-checked build; hooks for lexer tokens, step counters, stage'}],
        'checks': checks,
        'not_applicable': [{'property_id': p, 'reason': NOT_YET} for p in ALL if p not in CHECKS],
        'notes': 'Exit 0 = held on everything explored (known findings printed as KNOWN-FINDING lines); exit 1 = VIOLATION line; exit 3 = INCONCLUSIVE (harness problem or coverage floor missed; never reported as a violation). VERIF_SEED selects the random streams; the systematic sweeps are seed-independent.',
    }
    with open(os.path.join(ROOT, 'MANIFEST.json'), 'w') as f:
        json.dump(m, f, indent=1)
    print('wrote MANIFEST.json:', len(checks), 'checks,', len(m['not_applicable']), 'not claimed')


if __name__ == '__main__':
    main()
