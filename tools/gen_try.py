#!/usr/bin/env python3
"""Development aid: generate N programs, run pipeline + CPython + model, aggregate."""
import sys, os, collections, random, json
sys.path.insert(0, os.path.dirname(os.path.dirname(os.path.abspath(__file__))))
from mv import common, gen, lang, behave
from mv.common import Worker
N = int(sys.argv[1]); seed0 = int(sys.argv[2]) if len(sys.argv) > 2 else 0
feats = json.loads(sys.argv[3]) if len(sys.argv) > 3 and sys.argv[3].startswith('{') else None
common.build()
def shard(i, n):
  w = Worker(watchdog=60)
  rej = collections.Counter(); rej_ex = {}
  dis = collections.Counter(); dis_ex = {}
  acc = 0; unsup = 0; agree = 0
  for k in range(i, N, n):
      r = random.Random(seed0 * 100000 + k)
      prog, cov = gen.generate(r, feats)
      try:
          src = lang.to_mamba(prog)
      except Exception as e:
          print('PRINTER', e); raise
      exp = behave.expected(prog)
      for ann in (True, False):
          res = w.pipe(src, annotate=ann)
          if res['k'] == 'err':
              m = behave.norm_err(res['errs'][0]); rej[m] += 1; rej_ex.setdefault(m, (k, res['errs'][0][:600]))
              break
          if res['k'] != 'ok':
              rej['!' + res['k'] + ':' + str(res.get('msg'))[:80]] += 1; rej_ex.setdefault('!' + res['k'], (k, src)); break
          acc += 1
          if exp is None:
              unsup += 1; continue
          lines, exc, o = behave.observe(res['py'][0])
          d = behave.compare(exp, lines, exc)
          if d:
              key = f'{d}|ann={ann}'
              dis[key] += 1
              dis_ex.setdefault(key, (k, src, res['py'][0], exp, (lines, exc, o['detail'])))
          else:
              agree += 1
  return rej, rej_ex, dis, dis_ex, acc, unsup, agree
rej = collections.Counter(); rej_ex = {}; dis = collections.Counter(); dis_ex = {}; acc = unsup = agree = 0
for a, b, c, d, e, f, g in common.run_shards(shard):
    rej.update(a); dis.update(c); acc += e; unsup += f; agree += g
    for k_, v in b.items(): rej_ex.setdefault(k_, v)
    for k_, v in d.items(): dis_ex.setdefault(k_, v)
print(f'programs={N} accepted-runs={acc} agree={agree} unsupported={unsup}')
print('--- rejections'); 
for m, c in rej.most_common(25): print(c, m, ' e.g. seed', rej_ex[m][0])
print('--- disagreements')
for m, c in dis.most_common(20): print(c, m, ' e.g. seed', dis_ex[m][0])
if '-v' in sys.argv:
    for m, (k, e) in list(rej_ex.items())[:8]: print('=====', m); print(e)
if '-d' in sys.argv:
    for m, (k, src, py, exp, obs) in list(dis_ex.items())[:4]:
        print('=====', m, 'seed', k); print(src); print('--- py'); print(py); print('exp', exp); print('obs', obs)
