#!/usr/bin/env python3
"""Development aid: turn the replay files of the last run of a verdict-sweep check into known: entries
(after triage!). usage: list_known.py <Cxx> ; descriptions come from the DESC table below."""
import sys, os, json, glob, shutil
prop = sys.argv[1]
DESC = {
 'C06': {
  ('over-reject', 'operand', 'qdefault'): "`(x ? d) + 1`: a value made non-null with a default is rejected as operand (no type is inferred for the default expression)",
  ('over-reject', 'receiver', 'qdefault'): "`(x ? d).get()`: a value made non-null with a default is rejected as receiver of a method call",
  ('over-reject', 'receiver-field', 'qdefault'): "`(x ? d).bx`: a value made non-null with a default is rejected as receiver of a field access",
  ('over-reject', 'reassign-nullable', 'plain'): "a plain T value (tuple, list literal, constructor call) is rejected as new value of a variable declared T?",
  ('over-reject', 'return-nullable', None): "a conforming value is rejected as return value of a function declared to return T? (collection literals in any form; a T variable as last expression)",
  ('over-reject', 'field', 'ifx-plain'): "`fb.f := (if c then a else b)` is rejected ('Cannot infer type within access property') when it stands in a LATER branch (second match arm, else branch, handle arm): a conditional expression inside a later branch loses the definitions made in that branch",
  ('under-reject', 'reassign', 'nfield'): "a field declared T? is accepted as new value of a variable declared T (`u := box.nf`)",
  ('under-reject', 'receiver-field', None): "field access through a nullable receiver (`None.bx`, `nv.bx`, `nret().bx`, `box.nf.bx`) is accepted: AttributeError on None at run time",
  ('under-reject', 'receiver', 'nfield'): "method call through a field declared T? (`box.nf.get()`) is accepted",
  ('under-reject', 'return', None): "a T? variable or field as the last expression (implicit return) of a function declared to return T is accepted (the explicit `return` form is rejected)",
 },
 'C07': {
  ('under-reject', 'field', 'finfield'): "assignment to a field declared `fin` (class argument `def fin cf` or class-body `def fin bf`) through a mutable instance variable is accepted (`ko.cf := 7`, `ko.bf += 1`): field mutability is never consulted",
  ('under-reject', 'self', 'finfield'): "assignment to a field declared `fin` through `self` inside a method is accepted (`self.bf := 7`)",
 },
 'C08': {
  ('under-reject', 'method-call', None): "a call of a METHOD that declares `raise [K]` is accepted although K is neither handled nor declared by the enclosing function (raises are only checked for calls of top-level functions and for raise statements)",
 },
 'C09': {
  ('over-reject', 'both-branches', None): "a name defined in BOTH branches of an if and read afterwards is rejected (`Undefined variable`) although every path defines it: branch environments are dropped",
  ('over-reject', 'all-match-arms', None): "a name defined in ALL arms of a match (including the catch-all) and read afterwards is rejected although every path defines it",
  ('under-reject', 'forward', None): "module-level code that uses a top-level function or class above its definition is accepted (definitions are entered into the global context before checking): NameError at run time",
 },
}
n0 = len(glob.glob(f'/verif/findings/{prop}-*'))
lines = []
for k, f in enumerate(sorted(glob.glob(f'/verif/replay/{prop}/*.json'))):
    o = json.load(open(f)); sig = o['sig']; w = o['witness']
    d, use, source, ctx = (sig.split(':') + [None] * 4)[:4]
    what = DESC[prop].get((d, use, source)) or DESC[prop].get((d, use, None))
    if not what:
        print('NO DESCRIPTION for', sig); continue
    what += f" [cell {w['cell']}; {'every context' if ctx == '*' else 'context ' + str(ctx)}]"
    name = f'findings/{prop}-{n0 + k + 1:03d}.json'
    json.dump({'cell': w['cell'], 'group': w['group'], 'must': w['must'], 'source': w['source'], 'diagnostic': w.get('diagnostic'), 'run': w.get('run')}, open('/verif/' + name, 'w'), indent=1)
    lines.append(f'known: property={prop} sig={sig} witness={name} what={what}')
open('/verif/KNOWN_FINDINGS.txt', 'a').write('\n'.join(lines) + '\n')
print(len(lines), 'entries added')
