#!/usr/bin/env python3
"""Development aid (not a registered check): verdict and output of every repository sample, for
comparing a fixed tree against the pinned one. usage: sample_verdicts.py <mvh exe> <out.json>"""
import json, os, sys
sys.path.insert(0, os.path.dirname(os.path.dirname(os.path.abspath(__file__))))
from mv import common
from mv.common import Worker
exe, out = sys.argv[1], sys.argv[2]
w = Worker(exe)
res = {}
for rel, src in common.repo_samples('all'):
    for ann in (True, False):
        r = w.pipe([(rel, src)], annotate=ann)
        res[f'{rel}|{int(ann)}'] = {'k': r.get('k'), 'py': r.get('py'), 'err': [e.split('\n')[0] for e in r.get('errs', [])][:2], 'msg': r.get('msg')}
json.dump(res, open(out, 'w'), indent=0)
import collections
print(collections.Counter((k.split('/')[0], v['k']) for k, v in res.items()))
