#!/usr/bin/env python3
"""Offline setup: build the harness (monitor build + plain release) and the mamba CLI from /repo."""
import os, sys
sys.path.insert(0, os.path.dirname(os.path.dirname(os.path.abspath(__file__))))
from mv import common
t = common.build(plain=True, cli=True)
print(f'setup: built mvh (release, plain) and the mamba CLI in {t:.0f}s')
