#!/usr/bin/env python3
import sys, os, random
sys.path.insert(0, os.path.dirname(os.path.dirname(os.path.abspath(__file__))))
from mv import gen, lang, behave
from mv.common import Worker
from mv import common
common.build()
w = Worker(watchdog=60)
for k in map(int, sys.argv[1:]):
    if k < 0: continue
    r = random.Random(k)
    prog, cov = gen.generate(r)
    src = lang.to_mamba(prog)
    exp = behave.expected(prog)
    res = w.pipe(src, annotate=True)
    if res['k'] != 'ok':
        print(k, res['k'], (res.get('errs') or [''])[0])
        if os.environ.get('SHOW'): print(src)
        continue
    lines, exc, o = behave.observe(res['py'][0])
    d = behave.compare(exp, lines, exc)
    print('seed', k, d, 'exc', exp[1], exc, o['detail'])
    n = min(len(exp[0]), len(lines))
    i = next((i for i in range(n) if exp[0][i] != lines[i]), n)
    print('  first diff at', i, 'exp', exp[0][i:i+2], 'obs', lines[i:i+2])
    if '-s' in sys.argv or os.environ.get('SHOW'):
        print(src); print(res['py'][0])
