#!/bin/bash
# usage: run_all.sh <seed> <tier> [props...]  -> /tmp/runall_<seed>_<tier>.log
seed=$1; tier=$2; shift 2
props=${@:-C01 C02 C03 C04 C05 C06 C07 C08 C09 C10 C11 C12 C13 C14 C15 C16 C17 C18 C19 C20}
log=/tmp/runall_${seed}_${tier}.log; : > $log
for p in $props; do
  s=$(date +%s)
  VERIF_SEED=$seed ./check $p --tier $tier > /tmp/runall_$p.out 2>&1; rc=$?
  e=$(date +%s)
  echo "$p rc=$rc wall=$((e-s))s $(grep -c '^VIOLATION' /tmp/runall_$p.out) violations; $(grep -E '^INCONCLUSIVE' /tmp/runall_$p.out | head -1)" >> $log
  grep "sig:" /tmp/runall_$p.out | head -8 >> $log
done
echo DONE >> $log
