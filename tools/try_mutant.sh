#!/bin/bash
# usage: try_mutant.sh <patch.diff> <Cxx> [tier]   -- applies the patch to /repo, runs the check, always undoes the patch
set -u
patch=$1; prop=$2; tier=${3:-quick}
cd /verif
if ! git -C /repo diff --quiet; then echo "repo dirty"; exit 9; fi
git -C /repo apply "$patch" || { echo "patch does not apply"; exit 8; }
./check $prop --tier $tier > /tmp/mutant_run.log 2>&1; rc=$?
git -C /repo checkout -- . 
grep -E "^VIOLATION|^INCONCLUSIVE|^KNOWN" /tmp/mutant_run.log | head -5
grep "sig:" /tmp/mutant_run.log | head -5
tail -1 /tmp/mutant_run.log
echo "exit=$rc"
