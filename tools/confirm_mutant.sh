#!/bin/bash
# usage: confirm_mutant.sh <mutant dir> ...   confirms each mutant in a scratch worktree: baseline passes with the patch,
# demo.sh exits non-zero with it and 0 without. Appends one line per mutant to /tmp/mut/confirm.log
for d in "$@"; do
  id=$(basename $d)
  wt=/tmp/confirm_wt
  git -C /repo worktree remove --force $wt 2>/dev/null; rm -rf $wt
  git -C /repo worktree add -q --detach $wt HEAD || { echo "$id worktree-failed" >> /tmp/mut/confirm.log; continue; }
  ( cd $wt && bash $d/demo.sh $wt > /tmp/mut/$id.demo_clean.log 2>&1 ); clean=$?
  git -C $wt apply $d/patch.diff || { echo "$id patch-does-not-apply" >> /tmp/mut/confirm.log; continue; }
  python3 /tmp/mut/baseline.py $wt > /tmp/mut/$id.baseline.log 2>&1; base=$?
  ( cd $wt && bash $d/demo.sh $wt > /tmp/mut/$id.demo_mut.log 2>&1 ); mut=$?
  echo "$id demo_clean=$clean baseline_with_patch=$base demo_with_patch=$mut $(tail -1 /tmp/mut/$id.baseline.log)" >> /tmp/mut/confirm.log
  git -C /repo worktree remove --force $wt
done
