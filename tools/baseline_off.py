#!/usr/bin/env python3
"""Run the repository's pinned baseline with the verif feature OFF and compare with BASELINE.json.
Exit 0 iff every test of stable_pass passes."""
import json, os, re, subprocess, sys
base = json.load(open('/root/.vp/BASELINE.json'))
want = set(base['stable_pass'])
env = dict(os.environ, CARGO_NET_OFFLINE='true')
p = subprocess.run(['cargo', 'test', '--workspace', '--no-fail-fast', '--offline'], cwd='/repo', env=env,
                   stdout=subprocess.PIPE, stderr=subprocess.STDOUT, text=True)
passed, failed = set(), set()
binname = None
for line in p.stdout.splitlines():
    m = re.match(r'\s*Running (?:unittests )?(\S+)', line)
    if m:
        f = m.group(1)
        binname = 'mamba::main::' if f.startswith('tests/') else 'mamba::'
        if 'src/main.rs' in f: binname = 'mamba::bin::'
        continue
    if 'Doc-tests' in line: binname = 'doc::'
    m = re.match(r'test (\S+) \.\.\. (\w+)', line)
    if m and binname:
        (passed if m.group(2) == 'ok' else failed).add(binname + m.group(1))
missing = sorted(want - passed)
print(f'baseline: want={len(want)} passed={len(passed)} failed={len(failed)} missing_from_pass={len(missing)}')
for m in missing[:20]: print('  NOT PASSING:', m)
sys.exit(0 if not missing else 1)
