#!/usr/bin/env python3
"""Validate MANIFEST.json and evidence/*.json against the schemas."""
import json, glob, sys
import jsonschema
ok = True
def check(path, schema):
    global ok
    try:
        jsonschema.validate(json.load(open(path)), json.load(open(schema)))
        print('valid  ', path)
    except Exception as e:
        ok = False
        print('INVALID', path, str(e)[:300])
check('/verif/MANIFEST.json', '/root/.vp/MANIFEST.schema.json')
for p in sorted(glob.glob('/verif/evidence/*.json')):
    check(p, '/root/.vp/EVIDENCE.schema.json')
sys.exit(0 if ok else 1)
