#!/usr/bin/env python3
import sys, os, random, json
sys.path.insert(0, os.path.dirname(os.path.dirname(os.path.abspath(__file__))))
from mv import gen, lang, behave, common
from mv.shrink import shrink_prog
from mv.common import Worker
common.build()
w = Worker(watchdog=60)
feats = json.loads(os.environ.get('FEATS', 'null'))
for k in map(int, sys.argv[1:]):
    prog, _ = gen.generate(random.Random(k), feats)
    r = w.pipe(lang.to_mamba(prog))
    if r['k'] != 'err':
        print(k, 'not rejected'); continue
    key = behave.norm_err(r['errs'][0])
    def pred(p):
        x = w.pipe(lang.to_mamba(p))
        return x['k'] == 'err' and behave.norm_err(x['errs'][0]) == key
    small = shrink_prog(prog, pred)
    print('=== seed', k, key); print(lang.to_mamba(small)); print(w.pipe(lang.to_mamba(small))['errs'][0])
