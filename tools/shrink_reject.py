#!/usr/bin/env python3
"""Development aid: shrink the Mamba text of generated seed(s) keeping the same normalised first diagnostic."""
import sys, os, random, json
sys.path.insert(0, os.path.dirname(os.path.dirname(os.path.abspath(__file__))))
from mv import gen, lang, behave, common
from mv.shrink import shrink_text
from mv.common import Worker
common.build()
w = Worker(watchdog=60)
feats = json.loads(os.environ.get('FEATS', 'null'))
for k in map(int, sys.argv[1:]):
    prog, _ = gen.generate(random.Random(k), feats)
    src = lang.to_mamba(prog)
    r = w.pipe(src)
    if r['k'] != 'err':
        print(k, 'not rejected'); continue
    key = behave.norm_err(r['errs'][0])
    def pred(t):
        x = w.pipe(t)
        return x['k'] == 'err' and behave.norm_err(x['errs'][0]) == key
    small = shrink_text(src, pred, budget=600)
    print('=== seed', k, key); print(small); print(w.pipe(small)['errs'][0])
