#!/usr/bin/env python3
"""Development aid: transpile a file (both flags) with the real pipeline and run the output."""
import sys, os
sys.path.insert(0, os.path.dirname(os.path.dirname(os.path.abspath(__file__))))
from mv.common import Worker
from mv import pyrun
from mv import common
common.build()
w = Worker()
src = open(sys.argv[1]).read()
flags = [True, False] if len(sys.argv) < 3 else [sys.argv[2] == '1']
for ann in flags:
    r = w.pipe(src, annotate=ann)
    print('== annotate', ann, r['k'])
    if r['k'] == 'ok':
        if '-q' not in sys.argv: print(r['py'][0])
        o = pyrun.run(r['py'][0])
        print('-- run:', o['lines'], o['exc'], o['detail'], o['status'])
    elif r['k'] == 'err':
        for e in r['errs'][:3]: print(e)
    else:
        print(r)
