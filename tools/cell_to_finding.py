#!/usr/bin/env python3
"""Write a sweep cell as a finding witness: cell_to_finding.py <cell id> <out.json> [flags]"""
import sys, os, json
sys.path.insert(0, os.path.dirname(os.path.dirname(os.path.abspath(__file__))))
from mv import sweeps, lang
cell, out = sys.argv[1], sys.argv[2]
prog = dict(sweeps.cells())[cell]
json.dump({'cell': cell, 'prog': prog, 'mamba': lang.to_mamba(prog), 'flags': [True, False]}, open(out, 'w'), indent=1)
print(lang.to_mamba(prog))
