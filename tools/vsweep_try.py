#!/usr/bin/env python3
import sys, os, collections
sys.path.insert(0, os.path.dirname(os.path.dirname(os.path.abspath(__file__))))
from mv import common, vsweep, behave
from mv.common import Worker
common.build()
which = sys.argv[1]
cells = getattr(vsweep, which + '_cells')()
print(len(cells), 'cells')
def shard(i, n):
    w = Worker(watchdog=60); out = []
    for k, (cid, gid, src, must, meta) in enumerate(cells):
        if k % n != i: continue
        r = w.pipe(src)
        acc = r['k'] == 'ok'
        if r['k'] not in ('ok', 'err'): out.append((cid, gid, 'CRASH', str(r)[:100])); continue
        if acc != must:
            out.append((cid, gid, 'over-reject' if must else 'under-reject', behave.norm_err(r['errs'][0]) if not acc else ''))
    return out
bad = [x for part in common.run_shards(shard) for x in part]
print('mismatches', len(bad))
g = collections.Counter((x[2], x[1]) for x in bad)
for (kind, gid), c in sorted(g.items()): print(c, kind, gid)
if '-v' in sys.argv:
    for x in bad[:60]: print(x)
