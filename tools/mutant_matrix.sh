#!/bin/bash
# Runs every seeded change against the quick tier of the check(s) named in its meta.json (detected_by) and writes
# /verif/seeded/RESULTS.md. Applies each patch to /repo and ALWAYS undoes it. Must not run concurrently with other checks.
cd /verif
out=seeded/RESULTS.md
echo "| seeded change | check | exit | violation signatures (first 3) |" > $out
echo "|---|---|---|---|" >> $out
for d in seeded/C*; do
  id=$(basename $d)
  checks=$(python3 -c "import json;print(' '.join(json.load(open('$d/meta.json'))['checked_with']['detected_by']))")
  for c in $checks; do
    if ! git -C /repo diff --quiet; then echo "repo dirty, abort"; exit 9; fi
    git -C /repo apply $PWD/$d/patch.diff || { echo "| $id | $c | patch-does-not-apply | |" >> $out; continue; }
    ./check $c --tier quick > /tmp/mm_${id}_${c}.log 2>&1; rc=$?
    git -C /repo checkout -- .
    sigs=$(grep "sig:" /tmp/mm_${id}_${c}.log | head -3 | sed 's/  sig: //; s/|/\//g' | tr '\n' ';')
    echo "| $id | $c | $rc | $sigs |" >> $out
  done
done
# leave the harness built against the unchanged tree
python3 tools/setup.py > /dev/null 2>&1
echo "matrix done" >> /tmp/mutant_matrix.done
