#!/usr/bin/env python3
"""import_mutant.py <src dir> <detected_by csv or -> <note>  : copy a confirmed seeded change into /verif/seeded/<id>/"""
import sys, os, json, shutil, re
src, det, note = sys.argv[1], sys.argv[2], sys.argv[3]
mid = os.path.basename(src.rstrip('/'))
dst = f'/verif/seeded/{mid}'
shutil.rmtree(dst, ignore_errors=True)
shutil.copytree(src, dst, ignore=shutil.ignore_patterns('baseline.log', 'target', '*.o'))
meta = json.load(open(f'{dst}/meta.json'))
conf = [l for l in open(os.environ.get('CONFIRM_LOG', '/tmp/mut/confirm.log')) if l.startswith(mid + ' ')]
meta['confirmed_in_scratch_worktree'] = conf[-1].strip() if conf else 'NOT CONFIRMED'
meta['checked_with'] = {'detected_by': [] if det == '-' else det.split(','), 'note': note,
                        'how': f'git -C /repo apply seeded/{mid}/patch.diff; ./check <id> --tier quick; git -C /repo checkout -- .'}
json.dump(meta, open(f'{dst}/meta.json', 'w'), indent=1)
print('imported', mid, meta['confirmed_in_scratch_worktree'][:80])
