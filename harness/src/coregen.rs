//! C10: enumerate `Core` expression trees (public type of the generator) and print each with
//! the real `Display for Core`. Output: one line per tree, `<s-expr descriptor>\t<printed text>`.
//! The Python side rebuilds the tree a descriptor denotes and compares with CPython's parse.
use std::io::Write;

use mamba::generate::ast::node::Core;

fn b(c: Core) -> Box<Core> {
    Box::new(c)
}

pub const BIN: [&str; 23] = [
    "Add", "Sub", "Mul", "Div", "FDiv", "Mod", "Pow", "BAnd", "BOr", "BXOr", "BLShift", "BRShift",
    "Ge", "Geq", "Le", "Leq", "Eq", "Neq", "Is", "IsN", "In", "And", "Or",
];
pub const UN: [&str; 4] = ["Not", "AddU", "SubU", "BOneCmpl"];

fn bin(op: &str, l: Core, r: Core) -> Core {
    let (left, right) = (b(l), b(r));
    match op {
        "Add" => Core::Add { left, right },
        "Sub" => Core::Sub { left, right },
        "Mul" => Core::Mul { left, right },
        "Div" => Core::Div { left, right },
        "FDiv" => Core::FDiv { left, right },
        "Mod" => Core::Mod { left, right },
        "Pow" => Core::Pow { left, right },
        "BAnd" => Core::BAnd { left, right },
        "BOr" => Core::BOr { left, right },
        "BXOr" => Core::BXOr { left, right },
        "BLShift" => Core::BLShift { left, right },
        "BRShift" => Core::BRShift { left, right },
        "Ge" => Core::Ge { left, right },
        "Geq" => Core::Geq { left, right },
        "Le" => Core::Le { left, right },
        "Leq" => Core::Leq { left, right },
        "Eq" => Core::Eq { left, right },
        "Neq" => Core::Neq { left, right },
        "Is" => Core::Is { left, right },
        "IsN" => Core::IsN { left, right },
        "In" => Core::In { left, right },
        "And" => Core::And { left, right },
        "Or" => Core::Or { left, right },
        _ => unreachable!(),
    }
}

fn un(op: &str, e: Core) -> Core {
    let expr = b(e);
    match op {
        "Not" => Core::Not { expr },
        "AddU" => Core::AddU { expr },
        "SubU" => Core::SubU { expr },
        "BOneCmpl" => Core::BOneCmpl { expr },
        _ => unreachable!(),
    }
}

fn id(s: &str) -> Core {
    Core::Id { lit: s.to_string() }
}

type Item = (String, Core);

fn leaf(p: &str) -> Item {
    (format!("(Id {p})"), id(p))
}

fn literals() -> Vec<Item> {
    vec![
        (String::from("(Int 1)"), Core::Int { int: "1".into() }),
        (
            String::from("(ENum 2 3)"),
            Core::ENum {
                num: "2".into(),
                exp: "3".into(),
            },
        ),
    ]
}

/// All trees with at most `levels` operator levels above the leaves. Leaf identifiers are named
/// by their path so that every operand is distinguishable.
fn gen(levels: usize, prefix: &str, full_ternary: bool) -> Vec<Item> {
    let mut out = vec![leaf(prefix)];
    if levels == 0 {
        return out;
    }
    out.extend(literals());
    let subs_l = gen(levels - 1, &format!("{prefix}l"), full_ternary);
    let subs_r = gen(levels - 1, &format!("{prefix}r"), full_ternary);
    let subs_c = gen(levels - 1, &format!("{prefix}c"), full_ternary);
    for op in BIN.iter() {
        for (dl, cl) in &subs_l {
            for (dr, cr) in &subs_r {
                out.push((format!("({op} {dl} {dr})"), bin(op, cl.clone(), cr.clone())));
            }
        }
    }
    for op in UN.iter() {
        for (dl, cl) in &subs_l {
            out.push((format!("({op} {dl})"), un(op, cl.clone())));
        }
    }
    for (dl, cl) in &subs_l {
        out.push((
            format!("(Sqrt {dl})"),
            Core::Sqrt {
                expr: b(cl.clone()),
            },
        ));
        out.push((
            format!("(Attr {dl} f)"),
            Core::PropertyCall {
                object: b(cl.clone()),
                property: b(id("f")),
            },
        ));
        out.push((
            format!("(Call {dl})"),
            Core::FunctionCall {
                function: b(cl.clone()),
                args: vec![],
            },
        ));
        out.push((
            format!("(Lambda {dl})"),
            Core::AnonFun {
                args: vec![],
                body: b(cl.clone()),
            },
        ));
        out.push((
            format!("(Lambda1 {dl})"),
            Core::AnonFun {
                args: vec![Core::FunArg {
                    vararg: false,
                    var: b(id("p")),
                    ty: None,
                    default: None,
                }],
                body: b(cl.clone()),
            },
        ));
        out.push((
            format!("(Call1 g {dl})"),
            Core::FunctionCall {
                function: b(id("g")),
                args: vec![cl.clone()],
            },
        ));
        for (dr, cr) in &subs_r {
            out.push((
                format!("(Index {dl} {dr})"),
                Core::Index {
                    item: b(cl.clone()),
                    range: b(cr.clone()),
                },
            ));
            out.push((
                format!("(IsA {dl} {dr})"),
                Core::IsA {
                    left: b(cl.clone()),
                    right: b(cr.clone()),
                },
            ));
        }
    }
    let lim = if full_ternary { usize::MAX } else { 14 };
    for (dc, cc) in subs_c.iter().take(lim) {
        for (dl, cl) in subs_l.iter().take(lim) {
            for (dr, cr) in subs_r.iter().take(lim) {
                out.push((
                    format!("(Ternary {dc} {dl} {dr})"),
                    Core::Ternary {
                        cond: b(cc.clone()),
                        then: b(cl.clone()),
                        el: b(cr.clone()),
                    },
                ));
            }
        }
    }
    out
}

struct Rng(u64);
impl Rng {
    fn next(&mut self) -> u64 {
        self.0 = self.0.wrapping_add(0x9E3779B97F4A7C15);
        let mut z = self.0;
        z = (z ^ (z >> 30)).wrapping_mul(0xBF58476D1CE4E5B9);
        z = (z ^ (z >> 27)).wrapping_mul(0x94D049BB133111EB);
        z ^ (z >> 31)
    }
    fn below(&mut self, n: usize) -> usize {
        (self.next() % n as u64) as usize
    }
}

fn random_tree(rng: &mut Rng, depth: usize, ctr: &mut usize) -> Item {
    if depth == 0 || rng.below(10) == 0 {
        *ctr += 1;
        return match rng.below(8) {
            0 => literals()[0].clone(),
            1 => literals()[1].clone(),
            _ => leaf(&format!("v{ctr}")),
        };
    }
    match rng.below(40) {
        0..=22 => {
            let op = BIN[rng.below(BIN.len())];
            let (dl, cl) = random_tree(rng, depth - 1, ctr);
            let (dr, cr) = random_tree(rng, depth - 1, ctr);
            (format!("({op} {dl} {dr})"), bin(op, cl, cr))
        }
        23..=28 => {
            let op = UN[rng.below(UN.len())];
            let (dl, cl) = random_tree(rng, depth - 1, ctr);
            (format!("({op} {dl})"), un(op, cl))
        }
        29 => {
            let (dl, cl) = random_tree(rng, depth - 1, ctr);
            (format!("(Sqrt {dl})"), Core::Sqrt { expr: b(cl) })
        }
        30 => {
            let (dl, cl) = random_tree(rng, depth - 1, ctr);
            (
                format!("(Attr {dl} f)"),
                Core::PropertyCall {
                    object: b(cl),
                    property: b(id("f")),
                },
            )
        }
        31 => {
            let (dl, cl) = random_tree(rng, depth - 1, ctr);
            (
                format!("(Call {dl})"),
                Core::FunctionCall {
                    function: b(cl),
                    args: vec![],
                },
            )
        }
        32 => {
            let (dl, cl) = random_tree(rng, depth - 1, ctr);
            (
                format!("(Lambda {dl})"),
                Core::AnonFun {
                    args: vec![],
                    body: b(cl),
                },
            )
        }
        33 => {
            let (dl, cl) = random_tree(rng, depth - 1, ctr);
            (
                format!("(Call1 g {dl})"),
                Core::FunctionCall {
                    function: b(id("g")),
                    args: vec![cl],
                },
            )
        }
        34 | 35 => {
            let (dl, cl) = random_tree(rng, depth - 1, ctr);
            let (dr, cr) = random_tree(rng, depth - 1, ctr);
            (
                format!("(Index {dl} {dr})"),
                Core::Index {
                    item: b(cl),
                    range: b(cr),
                },
            )
        }
        36 => {
            let (dl, cl) = random_tree(rng, depth - 1, ctr);
            let (dr, cr) = random_tree(rng, depth - 1, ctr);
            (
                format!("(IsA {dl} {dr})"),
                Core::IsA {
                    left: b(cl),
                    right: b(cr),
                },
            )
        }
        _ => {
            let (dc, cc) = random_tree(rng, depth - 1, ctr);
            let (dl, cl) = random_tree(rng, depth - 1, ctr);
            let (dr, cr) = random_tree(rng, depth - 1, ctr);
            (
                format!("(Ternary {dc} {dl} {dr})"),
                Core::Ternary {
                    cond: b(cc),
                    then: b(cl),
                    el: b(cr),
                },
            )
        }
    }
}

/// `mvh core exhaustive <levels> <full_ternary 0|1>` or `mvh core random <n> <seed> <maxdepth>`
pub fn run(args: &[String]) {
    let so = std::io::stdout();
    let mut o = std::io::BufWriter::new(so.lock());
    let mut emit = |desc: &str, core: &Core| {
        let s = format!("{core}");
        writeln!(
            o,
            "{}\t{}",
            desc,
            s.trim_end_matches('\n').replace('\n', "\\n")
        )
        .unwrap();
    };
    match args.first().map(|s| s.as_str()) {
        Some("exhaustive") => {
            let levels: usize = args[1].parse().unwrap();
            let full = args.get(2).map_or(false, |s| s == "1");
            for (d, c) in gen(levels, "x", full) {
                emit(&d, &c);
            }
        }
        Some("random") => {
            let n: usize = args[1].parse().unwrap();
            let seed: u64 = args[2].parse().unwrap();
            let maxd: usize = args[3].parse().unwrap();
            let mut rng = Rng(seed.wrapping_mul(0x2545F4914F6CDD1D) ^ 0xC10);
            for _ in 0..n {
                let depth = 4 + rng.below(maxd.saturating_sub(3).max(1));
                let mut ctr = 0;
                let (d, c) = random_tree(&mut rng, depth, &mut ctr);
                emit(&d, &c);
            }
        }
        _ => {
            eprintln!("usage: mvh core exhaustive <levels> [full] | random <n> <seed> <maxdepth>");
            std::process::exit(2);
        }
    }
}
