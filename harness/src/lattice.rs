//! C20: evaluate the real `Name::is_superset_of`, `union` and `==` against a real `Context`.
//!
//! Type expressions (built through the public API, insertion order as written):
//!   T := ident | ?T | U(T|T|...) | G(ident;T;T...)
use std::collections::hash_map::DefaultHasher;
use std::convert::TryFrom;
use std::hash::{Hash, Hasher};

use mamba::check::context::Context;
use mamba::check::name::string_name::StringName;
use mamba::check::name::{IsSuperSet, Name, Nullable, Union};
use mamba::common::position::Position;
use mamba::parse::ast::AST;

use crate::jstr;

fn parse_ty(s: &[u8], i: &mut usize) -> Name {
    if s[*i] == b'?' {
        *i += 1;
        return parse_ty(s, i).as_nullable();
    }
    if s[*i..].starts_with(b"U(") {
        *i += 2;
        let mut acc = parse_ty(s, i);
        while s[*i] == b'|' {
            *i += 1;
            let next = parse_ty(s, i);
            acc = acc.union(&next);
        }
        *i += 1; // ')'
        return acc;
    }
    if s[*i..].starts_with(b"G(") {
        *i += 2;
        let start = *i;
        while s[*i] != b';' && s[*i] != b')' {
            *i += 1;
        }
        let head = String::from_utf8_lossy(&s[start..*i]).to_string();
        let mut gens = vec![];
        while s[*i] == b';' {
            *i += 1;
            gens.push(parse_ty(s, i));
        }
        *i += 1; // ')'
        return Name::from(&StringName::new(&head, &gens));
    }
    let start = *i;
    while *i < s.len() && (s[*i].is_ascii_alphanumeric() || s[*i] == b'_') {
        *i += 1;
    }
    Name::from(String::from_utf8_lossy(&s[start..*i]).as_ref())
}

fn hash_of(n: &Name) -> u64 {
    let mut h = DefaultHasher::new();
    n.hash(&mut h);
    h.finish()
}

/// args: row_lo, row_hi, then the type expressions
pub fn run(src: String, args: Vec<String>) -> String {
    let h = std::thread::Builder::new()
        .stack_size(64 << 20)
        .spawn(move || {
            let ast: AST = match src.parse() {
                Ok(a) => a,
                Err(e) => return format!("{{\"k\":\"err\",\"msg\":{}}}", jstr(&e.msg)),
            };
            let ctx = match Context::try_from(&[ast][..]) {
                Ok(c) => c,
                Err(e) => return format!("{{\"k\":\"err\",\"msg\":{}}}", jstr(&e[0].msg)),
            };
            let lo: usize = args[0].parse().unwrap_or(0);
            let hi: usize = args[1].parse().unwrap_or(0);
            let tys: Vec<Name> = args[2..]
                .iter()
                .map(|a| {
                    let mut i = 0;
                    parse_ty(a.as_bytes(), &mut i)
                })
                .collect();
            let names: Vec<String> = tys.iter().map(|t| jstr(&format!("{t}"))).collect();
            let pos = Position::invisible();
            let hi = hi.min(tys.len());
            let mut sup_rows = vec![];
            let mut eq_rows = vec![];
            let mut errs: Vec<String> = vec![];
            for i in lo..hi {
                let mut row = String::with_capacity(tys.len());
                let mut eq = String::with_capacity(tys.len());
                for j in 0..tys.len() {
                    let (a, b) = (tys[i].clone(), tys[j].clone());
                    let r = std::panic::catch_unwind(std::panic::AssertUnwindSafe(|| {
                        a.is_superset_of(&b, &ctx, pos)
                    }));
                    row.push(match r {
                        Ok(Ok(true)) => '1',
                        Ok(Ok(false)) => '0',
                        Ok(Err(e)) => {
                            if errs.len() < 20 {
                                errs.push(jstr(&format!("{} >= {}: {}", tys[i], tys[j], e[0].msg)));
                            }
                            'E'
                        }
                        Err(_) => 'P',
                    });
                    let e = tys[i] == tys[j];
                    let hq = hash_of(&tys[i]) == hash_of(&tys[j]);
                    eq.push(match (e, hq) {
                        (true, true) => '1',
                        (false, _) => '0',
                        (true, false) => 'H', // equal but hashing differently
                    });
                }
                sup_rows.push(jstr(&row));
                eq_rows.push(jstr(&eq));
            }
            let mut classes: Vec<String> = ctx.classes.iter().map(|c| jstr(&format!("{}", c.name))).collect();
            classes.sort();
            format!(
                "{{\"k\":\"ok\",\"lo\":{lo},\"hi\":{hi},\"names\":[{}],\"sup\":[{}],\"eq\":[{}],\"errs\":[{}],\"classes\":[{}]}}",
                names.join(","),
                sup_rows.join(","),
                eq_rows.join(","),
                errs.join(","),
                classes.join(",")
            )
        })
        .expect("spawn");
    h.join()
        .unwrap_or_else(|_| String::from("{\"k\":\"panic\"}"))
}
