//! mvh — worker that executes the *real* mamba code for the runtime monitors in /verif.
//!
//! `mvh serve` reads one request per line on stdin (tab separated, payload fields hex encoded) and
//! answers with one JSON line on stdout. Every request is executed on a fresh thread with an 8 MiB
//! stack (what the CLI's main thread has) under `catch_unwind`; a stack overflow or abort kills
//! the process, which the Python pool observes as EOF and attributes to the in-flight request.
use std::cell::RefCell;
use std::convert::TryFrom;
use std::fmt::Write as FmtWrite;
use std::io::{BufRead, Write};
use std::path::PathBuf;
use std::time::Instant;

use mamba::check::context::Context;
use mamba::common::position::Position;
use mamba::common::result::WithSource;
use mamba::parse::ast::AST;
use mamba::verif_hooks as hooks;

mod coregen;
mod lattice;

const STACK: usize = 8 << 20;

thread_local! {
    static LAST_PANIC: RefCell<Option<(String, String, Vec<String>)>> = RefCell::new(None);
}

pub fn jstr(s: &str) -> String {
    let mut o = String::with_capacity(s.len() + 2);
    o.push('"');
    for c in s.chars() {
        match c {
            '"' => o.push_str("\\\""),
            '\\' => o.push_str("\\\\"),
            '\n' => o.push_str("\\n"),
            '\r' => o.push_str("\\r"),
            '\t' => o.push_str("\\t"),
            c if (c as u32) < 0x20 || c == '\u{7f}' || c == '\u{2028}' || c == '\u{2029}' => {
                write!(o, "\\u{:04x}", c as u32).unwrap()
            }
            c => o.push(c),
        }
    }
    o.push('"');
    o
}

fn jlist(v: &[String]) -> String {
    format!(
        "[{}]",
        v.iter().map(|s| jstr(s)).collect::<Vec<_>>().join(",")
    )
}

fn unhex(s: &str) -> String {
    let b = s.as_bytes();
    let mut out = Vec::with_capacity(b.len() / 2);
    let val = |c: u8| match c {
        b'0'..=b'9' => c - b'0',
        b'a'..=b'f' => c - b'a' + 10,
        b'A'..=b'F' => c - b'A' + 10,
        _ => 0,
    };
    let mut i = 0;
    while i + 1 < b.len() {
        out.push(val(b[i]) * 16 + val(b[i + 1]));
        i += 2;
    }
    String::from_utf8_lossy(&out).to_string()
}

fn install_panic_hook() {
    std::panic::set_hook(Box::new(|info| {
        let msg = if let Some(s) = info.payload().downcast_ref::<&str>() {
            s.to_string()
        } else if let Some(s) = info.payload().downcast_ref::<String>() {
            s.clone()
        } else {
            String::from("<non-string panic payload>")
        };
        let loc = info
            .location()
            .map(|l| l.file().to_string())
            .unwrap_or_default();
        let bt = std::backtrace::Backtrace::force_capture().to_string();
        let mut frames = vec![];
        for line in bt.lines() {
            let l = line.trim();
            // lines look like "12: mamba::parse::lex::tokenize::h0123456789abcdef" or "at ./src/..."
            if let Some((_, rest)) = l.split_once(": ") {
                if rest.contains("mamba::") && !rest.contains("verif_hooks") {
                    let f = match rest.rfind("::h") {
                        Some(i) if rest.len() - i == 19 => &rest[..i],
                        _ => rest,
                    };
                    if frames.last().map(|x: &String| x.as_str()) != Some(f) {
                        frames.push(f.to_string());
                    }
                }
            }
            if frames.len() >= 16 {
                break;
            }
        }
        LAST_PANIC.with(|p| *p.borrow_mut() = Some((msg, loc, frames)));
    }));
}

/// Run `f` on a fresh 8 MiB thread under catch_unwind with hooks reset; returns the JSON body
/// (without braces) produced by `f`, or a panic description; appends steps/stage/time.
fn guarded<F>(budget: u64, f: F) -> String
where
    F: FnOnce() -> String + Send + std::panic::UnwindSafe + 'static,
{
    let h = std::thread::Builder::new()
        .stack_size(STACK)
        .spawn(move || {
            hooks::reset();
            hooks::arm_budget(budget);
            let t0 = Instant::now();
            let r = std::panic::catch_unwind(f);
            hooks::arm_budget(0);
            let us = t0.elapsed().as_micros();
            let steps = hooks::snapshot();
            let stage = hooks::stage();
            let body = match r {
                Ok(body) => body,
                Err(_) => {
                    let (msg, loc, frames) = LAST_PANIC
                        .with(|p| p.borrow_mut().take())
                        .unwrap_or((String::from("?"), String::new(), vec![]));
                    format!(
                        "\"k\":\"panic\",\"msg\":{},\"loc\":{},\"frames\":{}",
                        jstr(&msg),
                        jstr(&loc),
                        jlist(&frames)
                    )
                }
            };
            format!(
                "{{{body},\"steps\":[{}],\"stage\":{stage},\"us\":{us}}}",
                steps
                    .iter()
                    .map(|s| s.to_string())
                    .collect::<Vec<_>>()
                    .join(",")
            )
        })
        .expect("spawn");
    match h.join() {
        Ok(s) => s,
        Err(_) => String::from("{\"k\":\"panic\",\"msg\":\"panic escaped the guard\",\"loc\":\"\",\"frames\":[],\"steps\":[],\"stage\":0,\"us\":0}"),
    }
}

type Files = Vec<(String, Option<PathBuf>)>;

fn parse_files(fields: &[&str]) -> Files {
    let mut files = vec![];
    let mut i = 0;
    while i + 1 < fields.len() {
        let path = if fields[i] == "-" {
            None
        } else {
            Some(PathBuf::from(unhex(fields[i])))
        };
        files.push((unhex(fields[i + 1]), path));
        i += 2;
    }
    files
}

fn do_pipe(annotate: bool, budget: u64, srcdir: String, files: Files) -> String {
    guarded(budget, move || {
        let r = mamba::mamba_to_python(
            &files,
            &PathBuf::from(srcdir),
            &mamba::PipelineArguments { annotate },
        );
        match r {
            Ok(v) => format!("\"k\":\"ok\",\"py\":{}", jlist(&v)),
            Err(e) => format!("\"k\":\"err\",\"errs\":{}", jlist(&e)),
        }
    })
}

fn jpos(p: &Position) -> String {
    format!(
        "[{},{},{},{}]",
        p.start.line, p.start.pos, p.end.line, p.end.pos
    )
}

/// The same stages as `mamba_to_python`, through the public API, keeping the structured errors.
fn do_stages(annotate: bool, files: Files) -> String {
    guarded(0, move || {
        let mut out: Vec<String> = vec![];
        let mut asts: Vec<AST> = vec![];
        for (i, (src, path)) in files.iter().enumerate() {
            match src.parse::<AST>() {
                Ok(ast) => asts.push(ast),
                Err(err) => {
                    let err = err.with_source(&Some(src.clone()), path);
                    let causes: Vec<String> = err
                        .causes
                        .iter()
                        .map(|c| format!("[{},{}]", jpos(&c.pos), jstr(&c.msg)))
                        .collect();
                    out.push(format!(
                        "{{\"stage\":\"parse\",\"file\":{i},\"pos\":{},\"msg\":{},\"causes\":[{}],\"rendered\":{}}}",
                        jpos(&err.pos),
                        jstr(&err.msg),
                        causes.join(","),
                        jstr(&format!("{err}"))
                    ));
                }
            }
        }
        if !out.is_empty() {
            return format!("\"k\":\"err\",\"errs\":[{}]", out.join(","));
        }
        let terr = |stage: &str, file: i64, err: &mamba::check::result::TypeErr| {
            let causes: Vec<String> = err
                .verif_causes()
                .iter()
                .map(|c| format!("[{},{}]", jpos(&c.pos), jstr(&c.msg)))
                .collect();
            format!(
                "{{\"stage\":\"{stage}\",\"file\":{file},\"pos\":{},\"msg\":{},\"causes\":[{}],\"rendered\":{}}}",
                err.pos.as_ref().map_or(String::from("null"), jpos),
                jstr(&err.msg),
                causes.join(","),
                jstr(&format!("{err}"))
            )
        };
        let ctx = match Context::try_from(asts.as_ref()) {
            Ok(ctx) => ctx,
            Err(errs) => {
                let v: Vec<String> = errs.iter().map(|e| terr("context", -1, e)).collect();
                return format!("\"k\":\"err\",\"errs\":[{}]", v.join(","));
            }
        };
        let mut typed = vec![];
        for (i, (ast, (src, path))) in asts.iter().zip(&files).enumerate() {
            match mamba::check::check(ast, &ctx) {
                Ok(t) => typed.push(t),
                Err(errs) => {
                    for e in errs {
                        let e = e.with_source(&Some(src.clone()), path);
                        out.push(terr("check", i as i64, &e));
                    }
                }
            }
        }
        if !out.is_empty() {
            return format!("\"k\":\"err\",\"errs\":[{}]", out.join(","));
        }
        let gen_args = mamba::generate::GenArguments { annotate };
        let mut py = vec![];
        for (i, (t, (src, path))) in typed.iter().zip(&files).enumerate() {
            match mamba::generate::gen_arguments(t, &gen_args, &ctx) {
                Ok(core) => py.push(format!("{core}")),
                Err(err) => {
                    let err = err.with_source(&Some(src.clone()), path);
                    out.push(format!(
                        "{{\"stage\":\"generate\",\"file\":{i},\"pos\":{},\"msg\":{},\"causes\":[],\"rendered\":{}}}",
                        jpos(&err.position),
                        jstr(&err.msg),
                        jstr(&format!("{err}"))
                    ));
                }
            }
        }
        if !out.is_empty() {
            return format!("\"k\":\"err\",\"errs\":[{}]", out.join(","));
        }
        format!("\"k\":\"ok\",\"py\":{}", jlist(&py))
    })
}

fn do_lex(src: String, budget: u64) -> String {
    guarded(budget, move || match hooks::lex(&src) {
        Ok(toks) => {
            let v: Vec<String> = toks
                .iter()
                .map(|t| {
                    format!(
                        "[{},{},{},{},{},{},{}]",
                        t.0,
                        jstr(&t.1),
                        jstr(&t.2),
                        t.3,
                        t.4,
                        t.5,
                        t.6
                    )
                })
                .collect();
            format!("\"k\":\"ok\",\"toks\":[{}]", v.join(","))
        }
        Err((line, col, msg)) => format!(
            "\"k\":\"err\",\"line\":{line},\"col\":{col},\"msg\":{}",
            jstr(&msg)
        ),
    })
}

fn fnv(s: &str) -> u64 {
    let mut h: u64 = 0xcbf29ce484222325;
    for b in s.bytes() {
        h ^= b as u64;
        h = h.wrapping_mul(0x100000001b3);
    }
    h
}

/// Determinism driver: K sequential repetitions on this process (fresh hash seeds per container
/// instance), then T concurrent threads, optionally after a pollution workload.
fn do_repeat(annotate: bool, k: usize, t: usize, pollute: Files, files: Files) -> String {
    let run_once = move |files: &Files| -> (String, String) {
        let f = files.clone();
        let h = std::thread::Builder::new()
            .stack_size(STACK)
            .spawn(move || {
                std::panic::catch_unwind(move || {
                    mamba::mamba_to_python(
                        &f,
                        &PathBuf::from(""),
                        &mamba::PipelineArguments { annotate },
                    )
                })
            })
            .expect("spawn");
        match h.join() {
            Ok(Ok(Ok(v))) => (String::from("ok"), v.join("\u{1}")),
            Ok(Ok(Err(e))) => (String::from("err"), e.join("\u{1}")),
            _ => (String::from("panic"), String::new()),
        }
    };
    let mut obs: Vec<(String, String, String)> = vec![]; // (phase, verdict, payload)
    for _ in 0..k {
        let (v, p) = run_once(&files);
        obs.push((String::from("seq"), v, p));
    }
    if !pollute.is_empty() {
        for (src, path) in &pollute {
            let _ = run_once(&vec![(src.clone(), path.clone())]);
        }
        for _ in 0..k.min(4) {
            let (v, p) = run_once(&files);
            obs.push((String::from("after_pollution"), v, p));
        }
    }
    if t > 0 {
        let handles: Vec<_> = (0..t)
            .map(|_| {
                let f = files.clone();
                let r = run_once.clone();
                std::thread::spawn(move || r(&f))
            })
            .collect();
        for h in handles {
            let (v, p) = h.join().unwrap_or((String::from("panic"), String::new()));
            obs.push((String::from("thread"), v, p));
        }
    }
    // distinct observations
    let mut distinct: Vec<(String, String, u64, usize, Vec<String>)> = vec![]; // verdict, payload, hash, count, phases
    for (ph, v, p) in obs.iter() {
        let h = fnv(p);
        if let Some(d) = distinct
            .iter_mut()
            .find(|d| d.0 == *v && d.2 == h && d.1 == *p)
        {
            d.3 += 1;
            if !d.4.contains(ph) {
                d.4.push(ph.clone());
            }
        } else {
            distinct.push((v.clone(), p.clone(), h, 1, vec![ph.clone()]));
        }
    }
    let d: Vec<String> = distinct
        .iter()
        .map(|d| {
            format!(
                "{{\"verdict\":{},\"payload\":{},\"count\":{},\"phases\":{}}}",
                jstr(&d.0),
                jstr(&d.1),
                d.3,
                jlist(&d.4)
            )
        })
        .collect();
    format!(
        "{{\"k\":\"ok\",\"runs\":{},\"distinct\":[{}]}}",
        obs.len(),
        d.join(",")
    )
}

fn do_dir(annotate: bool, dir: String, src: Option<String>, target: Option<String>) -> String {
    guarded(0, move || {
        let r = mamba::transpile_dir(
            &PathBuf::from(dir),
            src.as_deref(),
            target.as_deref(),
            &mamba::Arguments { annotate },
        );
        match r {
            Ok(p) => format!("\"k\":\"ok\",\"out\":{}", jstr(&p.to_string_lossy())),
            Err(e) => format!("\"k\":\"err\",\"errs\":{}", jlist(&e)),
        }
    })
}

fn handle(line: &str) -> String {
    let f: Vec<&str> = line.split('\t').collect();
    match f[0] {
        "pipe" if f.len() >= 4 => do_pipe(
            f[1] == "1",
            f[2].parse().unwrap_or(0),
            unhex(f[3]),
            parse_files(&f[4..]),
        ),
        "stages" if f.len() >= 2 => do_stages(f[1] == "1", parse_files(&f[2..])),
        "lex" if f.len() >= 2 => do_lex(unhex(f[1]), f.get(2).and_then(|b| b.parse().ok()).unwrap_or(0)),
        "repeat" if f.len() >= 5 => {
            // repeat annotate K T npollute (pollute files..) (files..)
            let np: usize = f[4].parse().unwrap_or(0);
            let pol = parse_files(&f[5..5 + 2 * np]);
            let files = parse_files(&f[5 + 2 * np..]);
            do_repeat(
                f[1] == "1",
                f[2].parse().unwrap_or(1),
                f[3].parse().unwrap_or(0),
                pol,
                files,
            )
        }
        "dir" if f.len() >= 5 => {
            let opt = |s: &str| if s == "-" { None } else { Some(unhex(s)) };
            do_dir(f[1] == "1", unhex(f[2]), opt(f[3]), opt(f[4]))
        }
        "lattice" if f.len() >= 2 => {
            lattice::run(unhex(f[1]), f[2..].iter().map(|s| unhex(s)).collect())
        }
        "ping" => String::from("{\"k\":\"pong\"}"),
        _ => String::from("{\"k\":\"badreq\"}"),
    }
}

fn serve() {
    install_panic_hook();
    let stdin = std::io::stdin();
    let stdout = std::io::stdout();
    for line in stdin.lock().lines() {
        let line = match line {
            Ok(l) => l,
            Err(_) => break,
        };
        let resp = handle(&line);
        let mut o = stdout.lock();
        o.write_all(resp.as_bytes()).unwrap();
        o.write_all(b"\n").unwrap();
        o.flush().unwrap();
    }
}

fn main() {
    let args: Vec<String> = std::env::args().collect();
    match args.get(1).map(|s| s.as_str()) {
        Some("serve") => serve(),
        Some("oneshot") => {
            // one request read from a file; used under gdb/valgrind for crash triage
            install_panic_hook();
            let line = std::fs::read_to_string(&args[2]).expect("request file");
            println!("{}", handle(line.trim_end_matches('\n')));
        }
        Some("core") => coregen::run(&args[2..]),
        _ => {
            eprintln!("usage: mvh serve | mvh core <depth> [random <n> <seed> <maxdepth>]");
            std::process::exit(2);
        }
    }
}
