//! UB-interpreter slice (Miri): the two stub-free pure paths of mamba - the lexer (through the hook) and
//! the Core printer - on small inputs given as arguments (hex encoded). Prints one line per input.
use mamba::generate::ast::node::Core;

fn unhex(s: &str) -> String {
    let b = s.as_bytes();
    let v = |c: u8| match c {
        b'0'..=b'9' => c - b'0',
        b'a'..=b'f' => c - b'a' + 10,
        _ => 0,
    };
    let bytes: Vec<u8> = (0..b.len() / 2).map(|i| v(b[2 * i]) * 16 + v(b[2 * i + 1])).collect();
    String::from_utf8_lossy(&bytes).to_string()
}

fn id(s: &str) -> Box<Core> {
    Box::new(Core::Id { lit: s.to_string() })
}

fn main() {
    let mut n = 0;
    for arg in std::env::args().skip(1) {
        let src = unhex(&arg);
        match mamba::verif_hooks::lex(&src) {
            Ok(toks) => println!("lex ok {} tokens", toks.len()),
            Err((l, c, m)) => println!("lex err {l}:{c} {m}"),
        }
        n += 1;
    }
    // a handful of Core trees through the real printer
    let trees = vec![
        Core::Mul { left: Box::new(Core::Add { left: id("a"), right: id("b") }), right: id("c") },
        Core::Pow { left: Box::new(Core::SubU { expr: id("a") }), right: id("b") },
        Core::Ternary { cond: id("c"), then: Box::new(Core::Ternary { cond: id("d"), then: id("x"), el: id("y") }), el: id("z") },
        Core::Not { expr: Box::new(Core::And { left: id("p"), right: id("q") }) },
        Core::FunctionCall { function: Box::new(Core::AnonFun { args: vec![], body: id("v") }), args: vec![] },
    ];
    for t in &trees {
        println!("print {}", format!("{t}").trim_end());
    }
    println!("miri-slice done: {n} inputs, {} trees", trees.len());
}
